#!/usr/bin/env python3
"""Writes /verif/MANIFEST.json from the per-property modules (single source of truth: vfw/props/*.py + this table)."""
import importlib, json, os, sys
ROOT = os.path.dirname(os.path.dirname(os.path.abspath(__file__)))
sys.path.insert(0, ROOT)
TECH = {
 "C01": ("runtime monitoring: real controller+crossbar in Migen simulation, reference DRAM on DFI, history + sequential memory model", "3/C01"),
 "C02": ("runtime monitoring: online DFI trace checker (bank state machine, strobes, ranks) + per-bank order matching of port history", "3/C02"),
 "C03": ("runtime monitoring: windowed timing checker over the DFI command log against datasheet-derived requirements", "3/C03"),
 "C04": ("runtime monitoring: refresh deadline / sequencing monitor over the DFI command log (bounded-progress restatement)", "3/C04"),
 "C05": ("runtime monitoring: bounded-overtaking / bounded-wait monitor on port handshakes under adversarial streams", "3/C05"),
 "C06": ("runtime monitoring: address attribution of port commands to DFI commands vs independent mapping; injectivity on observed set", "3/C06"),
 "C07": ("runtime monitoring: converter on pulsed abstract core stub, byte-level sequential model, exactly-once accounting", "3/C07"),
 "C08": ("runtime monitoring: two-clock simulation, FIFO order / exactly-once monitors on both sides of the crossing", "3/C08"),
 "C09": ("runtime monitoring: random legal AXI4 traffic, independent beat-address model, response ordering monitor", "3/C09"),
 "C10": ("runtime monitoring: Wishbone master with aborts, ack counting, set-valued byte model", "3/C10"),
 "C11": ("runtime monitoring: Avalon-MM master with legal mid-burst gaps, beat accounting, byte model", "3/C11"),
 "C12": ("runtime monitoring: stream order / exactly-once monitors on DMA engines with stalled consumers, pulsed core stub", "3/C12"),
 "C13": ("runtime monitoring: unique-tag stream equality, overwrite-before-read monitor at the memory boundary", "3/C13"),
 "C14": ("runtime monitoring + fault injection: relational oracle over the BIST generator's and checker's own port logs", "3/C14"),
 "C15": ("runtime monitoring + fault injection: bit flips in the stored ECC words, black-box SECDED oracle", "3/C15"),
 "C16": ("runtime contracts (icontract post-condition on SDRAMModule.__init__) under a dense configuration sweep", "3/C16"),
 "C17": ("runtime contracts (icontract post-condition on the init-sequence generator) + independent JEDEC decoders + header readers", "3/C17"),
 "C18": ("runtime monitoring: same-cycle transparency monitor on DFIInjector, ordered exactly-once monitor on DFIRateConverter", "3/C18"),
 "C19": ("runtime monitoring: differential monitor, bundled SDRAMPHYModel vs reference DRAM on controller-made and generated legal traces", "3/C19"),
 "C20": ("runtime monitoring: independent LPDDR4/LPDDR5 CA decoders on adapter / pipeline / PHY outputs", "3/C20"),
}
NOTE = {}
props = [json.loads(l) for l in open(os.path.join(ROOT, "properties.jsonl"))]
checks, na = [], []
for p in props:
    pid = p["id"]
    path = os.path.join(ROOT, "vfw", "props", pid.lower() + ".py")
    if not os.path.exists(path):
        na.append(dict(property_id=pid, reason="check not built yet in this round (design in DESIGN.md section 3/%s)" % pid))
        continue
    os.environ.setdefault("PYTHONPATH", "")
    src = open(path).read()
    import re
    level = re.search(r'^LEVEL\s*=\s*"(\w+)"', src, re.M).group(1)
    doc = src.split('"""')[1].strip().split("\n")[0]
    checks.append(dict(
        property_id=pid,
        quick_cmd="./check %s --tier quick" % pid,
        thorough_cmd="./check %s --tier thorough" % pid,
        evidence_file="evidence/%s.json" % pid,
        replay_cmd_template="./check %s --replay {path}" % pid,
        engine="vfw",
        level_claimed=dict(category=level,
                           text="Held on the executions observed (counts and coverage in the evidence file); seeded random and "
                                "directed adversarial workloads on the real classes imported from /repo's working tree; "
                                "liveness clauses only in their bounded restatement; no claim beyond the sampled configurations. " + doc,
                           design_ref="DESIGN.md section " + TECH[pid][1]),
        level_note="Trusted base: Migen's simulator (or plain Python for contracts), the harness oracles (reference DRAM / "
                   "JEDEC decoders / mapping statement / bounds) which are written from the standards and docstrings, not from "
                   "the code under test. See ASSUMPTIONS in vfw/props/%s.py (copied into the evidence file)." % pid.lower(),
        technique=TECH[pid][0]))
man = dict(
    version=1,
    setup_cmd="sh tools/setup.sh",
    hooks=dict(guard="LITEDRAM_VERIF",
               enable="no source hooks are committed in /repo; checks import the unmodified classes from /repo's working tree "
                      "(PYTHONPATH=/repo) and set LITEDRAM_VERIF=1 for uniformity",
               baseline_off_cmd="cd /repo && /venv/bin/python -m pytest -ra -q -p no:cacheprovider --timeout=900 --continue-on-collection-errors",
               source_commits=[], add_only=True),
    engines=[dict(name="vfw", path="vfw/", serves_properties=[c["property_id"] for c in checks],
                  kind_free_text="runtime monitoring harness: Migen simulation of the real classes + monitors; icontract contracts for C16/C17")],
    checks=checks,
    notes="VERIF_SEED and VERIF_TIER are honoured. Exit 0 = held on everything explored (KNOWN-FINDING lines for listed open "
          "findings), 1 = VIOLATION, 2 = inconclusive (never on the unchanged tree). known_findings.json lists open findings and fixed: entries.",
    not_applicable=na)
json.dump(man, open(os.path.join(ROOT, "MANIFEST.json"), "w"), indent=1)
print("checks:", [c["property_id"] for c in checks], "not built:", [n["property_id"] for n in na])
