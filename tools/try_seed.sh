#!/bin/sh
# usage: tools/try_seed.sh <patch.diff> <Cxx> [<Cyy> ...]   -- runs quick checks against a scratch worktree with the patch applied
set -e
PATCH="$(readlink -f "$1")"; shift
WT=/tmp/wt_try_$$
git -C /repo worktree add -q "$WT" HEAD
trap 'git -C /repo worktree remove --force "$WT"' EXIT
git -C "$WT" apply "$PATCH"
cd "$(dirname "$0")/.."
for P in "$@"; do
  echo "=== $P against $(basename $(dirname $PATCH))"
  VERIF_REPO="$WT" ./check "$P" --tier ${TIER:-quick} 2>&1 | grep -v "^  case=" | cut -c1-260 | tail -${LINES_OUT:-6} || true
done
