#!/bin/sh
# usage: tools/confirm_seeds.sh seed-c02c seed-c06c ...   -- for each: demo rc on /repo and on a patched scratch worktree, pinned suite on the patched worktree
cd "$(dirname "$0")/.."
for S in "$@"; do
  DIR="$PWD/seeded/$S"
  WT=/tmp/wt_cf_$$
  git -C /repo worktree add -q "$WT" HEAD || exit 2
  git -C "$WT" apply "$DIR/patch.diff" || { echo "$S PATCH DOES NOT APPLY"; git -C /repo worktree remove --force "$WT"; continue; }
  DEMO=$(ls "$DIR"/demo*.py | head -1)
  PYTHONPATH=/repo timeout 900 /venv/bin/python "$DEMO" > /dev/null 2>&1; A=$?
  PYTHONPATH="$WT" timeout 900 /venv/bin/python "$DEMO" > /dev/null 2>&1; B=$?
  SUITE=$(/venv/bin/python tools/baseline_check.py "$WT" 2>&1 | grep stable_pass)
  echo "$S demo_clean_rc=$A demo_patched_rc=$B suite: $SUITE"
  git -C /repo worktree remove --force "$WT"
done
