#!/bin/sh
# usage: tools/verify_seed.sh <dir with patch.diff + demo*.py> <Cxx> [...]   -- full verification of a seeded change:
#   demo exits 0 on /repo and 1 on the patched scratch worktree, pinned suite still passes there, then the quick checks
DIR="$(readlink -f "$1")"; shift
WT=/tmp/wt_vs_$$
git -C /repo worktree add -q "$WT" HEAD || exit 2
trap 'git -C /repo worktree remove --force "$WT"' EXIT
git -C "$WT" apply "$DIR/patch.diff" || { echo "PATCH DOES NOT APPLY"; exit 2; }
DEMO=$(ls "$DIR"/demo*.py | head -1)
PYTHONPATH=/repo /venv/bin/python "$DEMO" > /tmp/vs_clean_$$.log 2>&1; echo "demo clean rc=$?"
PYTHONPATH="$WT" /venv/bin/python "$DEMO" > /tmp/vs_mut_$$.log 2>&1; echo "demo patched rc=$?"
rm -f /tmp/vs_clean_$$.log /tmp/vs_mut_$$.log
cd "$(dirname "$0")/.."
if [ -z "$SKIP_SUITE" ]; then /venv/bin/python tools/baseline_check.py "$WT" 2>&1 | tail -2; fi
for P in "$@"; do
  echo "=== $P"
  VERIF_REPO="$WT" ./check "$P" --tier ${TIER:-quick} 2>&1 | grep -v "^  case=" | cut -c1-220 | tail -${LINES_OUT:-5} || true
done
