#!/bin/sh
# Offline setup: contracts library beside the repository's interpreter, then a shim self-test.
set -e
cd "$(dirname "$0")/.."
mkdir -p .deps evidence out/replays
/venv/bin/pip install -q --no-index --find-links /opt/veriftools/wheels --target .deps icontract deal >/dev/null 2>&1 || \
  /venv/bin/pip install --no-index --find-links /opt/veriftools/wheels --target .deps --upgrade icontract deal
PYTHONPATH=/repo:$PWD:$PWD/.deps PYTHONHASHSEED=0 /venv/bin/python - <<'PY'
import vfw.shim
import icontract
from litedram.dfii import DFIInjector
d = DFIInjector(13, 3, 1, 16, 2)
assert [c.name for c in d.pi0.get_csrs()][:2] == ["command", "command_issue"]
print("setup ok: icontract", icontract.__version__)
PY
