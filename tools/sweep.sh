#!/bin/sh
# usage: tools/sweep.sh "<props>" "<seeds>" [tier]   -- prints one line per (property, seed); non-zero rc lines are what to look at
cd "$(dirname "$0")/.."
TIER=${3:-quick}
for S in $2; do for P in $1; do
  VERIF_SEED=$S ./check $P --tier $TIER > out/sweep_${P}_$S.log 2>&1; RC=$?
  echo "$P seed=$S rc=$RC $(grep -c '^VIOLATION' out/sweep_${P}_$S.log) viol :: $(grep "^$P tier" out/sweep_${P}_$S.log | cut -c1-110)"
done; done
