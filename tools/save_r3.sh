#!/bin/sh
# usage: tools/save_r3.sh c17 ...  -- copies a round-3 agent's deliverables from /tmp/r3/out/<id> to seeded/seed-<id>c and drops its worktree
cd "$(dirname "$0")/.."
for p in "$@"; do
  mkdir -p seeded/seed-${p}c
  cp /tmp/r3/out/$p/patch.diff seeded/seed-${p}c/patch.diff
  cp /tmp/r3/out/$p/demo.py seeded/seed-${p}c/demo_${p}c.py
  cp /tmp/r3/out/$p/note.md seeded/seed-${p}c/note.md
  git -C /repo worktree remove --force /tmp/r3/wt_$p 2>/dev/null
done
git -C /repo worktree list
