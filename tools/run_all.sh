#!/bin/sh
# runs every check of MANIFEST.json (quick by default) and prints one status line per property
cd "$(dirname "$0")/.."
TIER=${1:-quick}
mkdir -p out
for P in C01 C02 C03 C04 C05 C06 C07 C08 C09 C10 C11 C12 C13 C14 C15 C16 C17 C18 C19 C20; do
  S=$(date +%s)
  ./check $P --tier $TIER > out/all_$P.log 2>&1
  RC=$?
  E=$(date +%s)
  echo "$P rc=$RC wall=$((E-S))s $(grep -c '^KNOWN-FINDING' out/all_$P.log) known, $(grep -c '^VIOLATION' out/all_$P.log) violations :: $(grep "^$P tier" out/all_$P.log | cut -c1-120)"
done
