#!/usr/bin/env python3
"""Generates the case lists of every check for many seeds and both tiers (no simulation): a crash in case generation would
make a check exit non-zero on the unchanged tree for that seed.  usage: PYTHONPATH=/repo:/verif:/verif/.deps python tools/gen_cases_selftest.py [nseeds]"""
import importlib, json, sys
n = int(sys.argv[1]) if len(sys.argv) > 1 else 30
bad = 0
for k in range(1, 21):
    pid = "c%02d" % k
    mod = importlib.import_module("vfw.props." + pid)
    for tier in ("quick", "thorough"):
        for seed in range(n if tier == "quick" else max(3, n // 5)):
            try:
                cs = mod.cases(tier, seed)
                names = [c["name"] for c in cs]
                assert len(set(names)) == len(names), "duplicate case names"
                json.dumps(cs)
            except Exception as e:
                bad += 1
                print("FAIL", pid, tier, seed, repr(e)[:200])
    print(pid, "ok")
sys.exit(1 if bad else 0)
