#!/usr/bin/env python3
"""Runs the repository's pinned test suite (guard OFF) and compares with /root/.vp/BASELINE.json stable_pass."""
import json, os, subprocess, sys, tempfile
import xml.etree.ElementTree as ET
base = json.load(open("/root/.vp/BASELINE.json"))
repo = sys.argv[1] if len(sys.argv) > 1 else "/repo"
fd, xml = tempfile.mkstemp(suffix=".xml"); os.close(fd)
env = dict(os.environ); env.pop("LITEDRAM_VERIF", None)
subprocess.run(["/venv/bin/python", "-m", "pytest", "-q", "-p", "no:cacheprovider", "--timeout=900",
                "--continue-on-collection-errors", "-n", "8", "--junitxml=" + xml], cwd=repo, env=env,
               stdout=subprocess.DEVNULL, stderr=subprocess.DEVNULL)
passed = set()
for tc in ET.parse(xml).getroot().iter("testcase"):
    if not any(c.tag in ("failure", "error", "skipped") for c in tc):
        passed.add(tc.get("classname") + "::" + tc.get("name"))
os.unlink(xml)
missing = [t for t in base["stable_pass"] if t not in passed]
print("stable_pass=%d passed_now=%d missing=%d" % (len(base["stable_pass"]), len(passed), len(missing)))
for m in missing: print("  MISSING", m)
sys.exit(1 if missing else 0)
