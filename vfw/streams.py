"""LiteX stream endpoint drivers (sample -> update -> drive), with stall profiles."""
from .stub import StallGen


class StreamSource:
    """Drives a stream sink endpoint of the DUT with a list of items (dicts: field -> value, plus optional 'first'/'last').
    Holds valid and the payload stable until the beat is accepted."""

    def __init__(self, ep, items, rng, valid_prob=0.8, long_stall=0.0, fields=None, scramble=False):
        # scramble: payload signals are don't-care while valid is low -- drive random values on them then
        self.scramble = scramble
        self.rng = rng
        self.ep = ep
        self.items = items
        self.stall = StallGen(rng, valid_prob, long_stall)
        self.sent = []          # (cycle, index)
        self.cycle = 0
        self.done = False
        self.stalled_cycles = 0
        self.fields = fields

    def process(self):
        yield "passive"
        ep = self.ep
        i = 0
        valid = 0
        yield ep.valid.eq(0)
        yield
        self.cycle = 1
        while True:
            ready = yield ep.ready
            cyc = self.cycle
            if valid and ready:
                self.sent.append((cyc, i))
                i += 1
                valid = 0
                if i >= len(self.items):
                    self.done = True
            elif valid:
                self.stalled_cycles += 1
            stmts = []
            if not valid and i < len(self.items):
                if self.stall.next():
                    it = self.items[i]
                    stmts.append(ep.valid.eq(1))
                    for k, v in it.items():
                        stmts.append(getattr(ep, k).eq(v))
                    valid = 1
                else:
                    stmts.append(ep.valid.eq(0))
            elif not valid:
                stmts.append(ep.valid.eq(0))
            if not valid and self.scramble and self.items:
                for k in self.items[0]:
                    sig = getattr(ep, k)
                    stmts.append(sig.eq(self.rng.getrandbits(len(sig))))
            if stmts:
                yield stmts
            yield
            self.cycle = cyc + 1


class StreamSink:
    """Consumes a stream source endpoint of the DUT; records (cycle, {field: value}) per accepted beat."""

    def __init__(self, ep, fields, rng, ready_prob=0.8, long_stall=0.0, long_len=(50, 300), hold_until=None):
        self.ep = ep
        self.fields = fields
        self.stall = StallGen(rng, ready_prob, long_stall, long_len)
        self.got = []
        self.cycle = 0
        self.hold_until = hold_until    # callable -> bool: keep ready low while it returns True
        self.stalled_with_valid = 0

    def process(self):
        yield "passive"
        ep = self.ep
        sigs = [ep.valid] + [getattr(ep, f) for f in self.fields]
        ready = 0
        yield ep.ready.eq(0)
        yield
        self.cycle = 1
        while True:
            vals = yield sigs
            cyc = self.cycle
            if vals[0] and ready:
                self.got.append((cyc, dict(zip(self.fields, vals[1:]))))
            elif vals[0]:
                self.stalled_with_valid += 1
            nr = self.stall.next()
            if self.hold_until is not None and self.hold_until():
                nr = 0
            if nr != ready:
                yield ep.ready.eq(nr)
                ready = nr
            yield
            self.cycle = cyc + 1
