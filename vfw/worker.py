"""Worker: reads a JSON list of cases on stdin, runs each, prints one 'RESULT <json>' line per case."""
import json
import sys
import time
import traceback

from . import shim  # noqa: F401


def main():
    pid = sys.argv[1]
    from .runner import load_prop
    mod = load_prop(pid)
    cases = json.load(sys.stdin)
    for case in cases:
        t0 = time.time()
        try:
            r = mod.run_case(case)
        except Exception as e:
            r = dict(verdict="inconclusive", why="harness exception: %r\n%s" % (e, traceback.format_exc()[-1500:]),
                     violations=[], stats={}, nontrivial=False, signature="")
        r["name"] = case["name"]
        r["wall"] = round(time.time() - t0, 2)
        sys.stdout.write("RESULT " + json.dumps(r, default=str) + "\n")
        sys.stdout.flush()


if __name__ == "__main__":
    main()
