"""pytest plugin: the repository's own tests run with the C16 timing contract on SDRAMModule.__init__ in record-only mode
(a raising contract would abort what it observes).  Loaded with `-p vfw.pytest_c16`; results go to $VERIF_C16_OUT."""
import json
import os


def pytest_configure(config):
    from vfw.props import c16
    c16.RECORD_ONLY.append(True)
    c16.install_contract()


def pytest_unconfigure(config):
    from vfw.props import c16
    out = os.environ.get("VERIF_C16_OUT")
    if out:
        with open(out, "w") as f:
            json.dump(dict(evaluations=c16.COUNTERS["evaluations"], near_flip=c16.COUNTERS["near_flip"],
                           witnesses=c16.RECORDED[:200], configs=sorted(c16.SEEN_CONFIGS)[:2000]), f, default=str)
