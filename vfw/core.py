"""Whole-core DUT builder, independent address-map statement and simulation runner."""
import math
import time

from . import shim  # noqa: F401  (must be first)
from migen import Module, log2_int
from migen.sim.core import Simulator

from litedram.common import PhySettings, GeomSettings, TimingSettings, burst_lengths
from litedram.core.controller import ControllerSettings, LiteDRAMController
from litedram.core.crossbar import LiteDRAMCrossbar


class CoreDUT(Module):
    def __init__(self, phy, geom, timing, clk_freq, cs_kwargs, port_specs):
        cs = ControllerSettings(**cs_kwargs)
        self.submodules.controller = LiteDRAMController(phy, geom, timing, clk_freq, cs)
        self.submodules.crossbar = LiteDRAMCrossbar(self.controller.interface)
        self.ports = [self.crossbar.get_port(**spec) for spec in port_specs]
        self.dfi = self.controller.dfi
        self.phy = phy
        self.geom = geom
        self.timing = timing
        self.cs = cs


class AddressMap:
    """Independent statement of the documented port-address -> (rank, bank, row, col) mapping.

    Consecutive addresses walk columns (in burst units), then banks (rank in the top bank bits),
    then rows; the bank field sits at max(colbits - align, log2(bank_byte_alignment / word bytes));
    the column presented on the address bus has `align` zero low bits and skips A10.
    """

    def __init__(self, memtype, nphases, nranks, bankbits, rowbits, colbits, word_bytes, bank_byte_alignment=0):
        bl = nphases if memtype == "SDR" else burst_lengths[memtype]
        self.align = int(math.log2(bl))
        self.colbits = colbits
        self.rowbits = rowbits
        self.bankbits = bankbits
        self.rankbits = int(math.log2(nranks))
        self.ccols = colbits - self.align          # column bits carried by the port address
        shift = self.ccols
        if bank_byte_alignment:
            shift = max(shift, int(math.log2(bank_byte_alignment // word_bytes)))
        self.shift = shift
        self.bb = self.bankbits + self.rankbits
        self.aw = rowbits + self.ccols + self.bb

    def locate(self, addr):
        low = addr & ((1 << self.shift) - 1)
        bank_full = (addr >> self.shift) & ((1 << self.bb) - 1)
        high = addr >> (self.shift + self.bb)
        rca = low | (high << self.shift)
        colw = rca & ((1 << self.ccols) - 1)
        row = rca >> self.ccols
        bank = bank_full & ((1 << self.bankbits) - 1)
        rank = bank_full >> self.bankbits
        return rank, bank, row, colw

    def bus_col(self, colw):
        """Column word index -> value on the DFI address bus (A10 skipped)."""
        c = colw << self.align
        return (c & 0x3FF) | ((c >> 10) << 11)

    def compose(self, rank, bank, row, colw):
        rca = colw | (row << self.ccols)
        low = rca & ((1 << self.shift) - 1)
        high = rca >> self.shift
        bank_full = bank | (rank << self.bankbits)
        return low | (bank_full << self.shift) | (high << (self.shift + self.bb))


def make_phy(memtype, nphases, databits=16, rdphase=0, wrphase=0, cl=2, cwl=None, read_latency=4,
             write_latency=0, nranks=1, dfi_mult=None, phase_signals=False):
    if dfi_mult is None:
        dfi_mult = 1 if memtype == "SDR" else 2
    if phase_signals and nphases > 1:
        # the Xilinx PHYs hand their rdphase / wrphase CSR storages (log2(nphases) bits, reset = the computed phase) to the
        # controller instead of integers
        from migen import Signal
        rdphase = Signal(log2_int(nphases), reset=rdphase)
        wrphase = Signal(log2_int(nphases), reset=wrphase)
    return PhySettings(
        phytype="VerifRefDRAM", memtype=memtype, databits=databits,
        dfi_databits=databits * dfi_mult,
        nphases=nphases, rdphase=rdphase, wrphase=wrphase, cl=cl, cwl=cwl,
        read_latency=read_latency, write_latency=write_latency, nranks=nranks)


class SimTimeout(Exception):
    pass


def run_sim(dut, processes, done_fn, max_cycles, clocks=None, wall_limit=None, extra=None):
    """Run until done_fn() is true (checked once per sys cycle) or max_cycles elapsed.

    Returns (cycles, reason) with reason in {"done", "cycle-cap", "wall"}.
    """
    state = dict(cycles=0, reason=None)
    t0 = time.time()

    def terminator():
        n = 0
        while True:
            yield
            n += 1
            state["cycles"] = n
            if done_fn():
                state["reason"] = "done"
                return
            if n >= max_cycles:
                state["reason"] = "cycle-cap"
                return
            if wall_limit is not None and (n & 63) == 0 and time.time() - t0 > wall_limit:
                state["reason"] = "wall"
                return

    gens = {"sys": [terminator()] + list(processes)}
    if extra:
        for k, v in extra.items():
            gens.setdefault(k, []).extend(v)
    with Simulator(dut, gens, clocks=clocks or {"sys": 10}) as s:
        s.run()
    return state["cycles"], state["reason"]
