"""C02 -- DRAM command stream obeys the bank state machine.  See DESIGN.md section 3/C02."""
import random

from .. import corecfg

LEVEL = "exploration"
BATCH = 1
BATCH_TIMEOUT = 2400
RULE = ("case = (memory configuration, controller settings, ports, workload class, seed) on the real controller+crossbar; "
        "every DFI command of every phase is judged by the reference DRAM's bank state machine, strobe/phase/rank rules and "
        "the per-bank CAS stream is matched one-for-one against the accepted port commands (kind, column, open row); "
        "non-trivial iff >=1 each of ACT, PRE/auto-PRE, RD, WR (and REF when refresh is on) was judged and >=1 bank was "
        "re-activated; distinct = distinct (config family, class, ranks, auto-precharge, zqcs, bigram set)")
ASSUMPTIONS = [
    "Migen simulator semantics",
    "JEDEC command truth table (RAS/CAS/WE), A10 = auto-precharge / precharge-all",
    "documented address mapping (columns, banks with rank in the top bank bits, rows) for the open-row comparison",
]
MIN_NONTRIVIAL = {"quick": 8, "thorough": 40}
CLASSES = ["mixed", "row-conflict", "same-address", "bank-sweep", "streams", "cold-rows", "write-then-conflict"]


def cases(tier, seed):
    n = 56 if tier == "quick" else 480
    out = []
    fams = ["SDR1", "SDR2", "DDR2x", "DDR3x4", "LPDDR", "DDR3x2", "DDR4x4", "SDR1", "LPDDR4x8", "LPDDR5x1", "DDR2x"]
    for k in range(n):
        r = random.Random("C02/%d/%s/%d" % (seed, tier, k))
        if k % 8 == 7:
            mem = dict(r.choice(corecfg.MODULE_MEMS))
            if mem["cls"] == "MT40A1G8" and tier == "quick" and k % 16 != 15:
                mem = dict(corecfg.MODULE_MEMS[k % 6])
        else:
            mem = corecfg.synth_mem(r, fams[k % len(fams)])
        refresh = r.random() < 0.8
        cs = corecfg.rand_cs(r, refresh=refresh)
        nports = r.choice([1, 2, 2, 3, 4])
        if r.random() < 0.3:
            mem["nranks"] = 2
            if mem.get("kind") == "synthetic" and mem["bankbits"] >= 4:
                mem["bankbits"] = 3      # 32 bank machines simulate at < 10 cycles/s
        zq = False
        if refresh and r.random() < 0.35:
            zq = True
            if mem["kind"] == "synthetic":
                mem["timing"]["tZQCS"] = r.randint(3, 9)
                clk = 100e6
            else:
                clk = mem["clk_freq"]
            if mem["kind"] == "synthetic" or mem["cls"] in ("MT41K128M16", "MT41J128M16", "MT40A1G8"):
                cs["refresh_zqcs_freq"] = clk / r.randint(300, 600)
            else:
                zq = False
        cls = CLASSES[k % len(CLASSES)]
        nops = r.randint(60, 110) if tier == "quick" else r.randint(80, 200)
        nops = max(20, nops // max(1, nports // 2))
        wl = {"class": cls, "nops": nops, "master_mode": r.choice(["fifo", "fifo", "strict"]),
              "hot_rows": r.choice([2, 3]), "hot_cols": 2, "wr_frac": r.choice([0.3, 0.5, 0.7])}
        cfg = dict(mem=mem, cs=cs, nports=nports, workload=wl, seed="C02/%d/%d" % (seed, k),
                   trefi_override=r.randint(100, 140) if refresh else None, max_cycles=40000, sweep=False, zq=zq,
                   fsm_coverage=True)
        cfg["name"] = "%03d-%s-%s-p%d-r%d" % (k, mem.get("family", mem.get("cls")), cls, nports, mem.get("nranks", 1))
        cfg["cost"] = corecfg.cost_of(mem, nports, 2500)
        out.append(cfg)
    return out


def run_case(cfg):
    from .. import wholecore as W
    tr = W.run_case(cfg)
    v, st = W.check_protocol(tr)
    if tr.reason == "wall":
        return dict(verdict="inconclusive", why="wall-clock watchdog", violations=[], stats=st, nontrivial=False, signature="")
    c = st["counts"]
    ap = sum(1 for e in tr.ref.rd_log + tr.ref.wr_log if e["ap"])
    st["auto_precharges"] = ap
    st["bigram_list"] = sorted("%s>%s" % b for b in tr.ref.bigrams)
    st["strobes"] = len(tr.ref.strobe_log)
    st["hang"] = bool(tr.state["hang"])
    st["fsm_coverage"] = tr.fsm_cov
    refresh = bool(cfg["cs"].get("with_refresh", True))
    nontrivial = (c.get("ACT", 0) >= 1 and (c.get("PRE", 0) + ap) >= 1 and c.get("RD", 0) >= 1 and c.get("WR", 0) >= 1
                  and (not refresh or c.get("REF", 0) >= 1) and st["reopened"] >= 1)
    if cfg.get("zq") and c.get("ZQC", 0) < 1:
        nontrivial = False
    mem = cfg["mem"]
    sig = "|".join(str(x) for x in (mem.get("family", mem.get("cls")), cfg["workload"]["class"], mem.get("nranks", 1),
                                    cfg["cs"].get("with_auto_precharge"), bool(cfg.get("zq")),
                                    hash(tuple(st["bigram_list"])) & 0xFFFFFF))
    st["history_sample"] = (W_ if "W_" in dir() else W).trace_sample(tr)
    return dict(verdict="violated" if v else "held", violations=v[:12], stats=st, nontrivial=nontrivial, signature=sig)


def aggregate(results, cases):
    counts = {}
    bigr = set()
    matched = cmds = 0
    fsm = {}
    for r in results:
        st = r.get("stats") or {}
        for nm, d in (st.get("fsm_coverage") or {}).items():
            e = fsm.setdefault(nm, dict(states=set(), transitions=set()))
            e["states"].update(d["states"])
            e["transitions"].update(d["transitions"])
        for k, n in (st.get("counts") or {}).items():
            counts[k] = counts.get(k, 0) + n
        counts["auto-PRE"] = counts.get("auto-PRE", 0) + (st.get("auto_precharges") or 0)
        bigr.update(st.get("bigram_list", []))
        matched += st.get("matched", 0) or 0
        cmds += st.get("cmds", 0) or 0
    by = {c["name"]: c for c in cases}
    samples = [dict(case=r["name"], mem=by.get(r["name"], {}).get("mem"), cs=by.get(r["name"], {}).get("cs"),
                    verdict=r["verdict"], stats={k: v for k, v in (r.get("stats") or {}).items() if k not in ("bigram_list", "fsm_coverage")})
               for r in results[:3]]
    fsm = {nm: dict(states=sorted(d["states"]), transitions=sorted(d["transitions"])) for nm, d in fsm.items()}
    return dict(dfi_commands_judged=cmds, commands_by_type=counts, cas_matched_to_port_commands=matched, fsm_coverage_observed=fsm,
                dfi_command_bigrams_seen=sorted(bigr), samples=samples)


def summary(cov):
    return "  observed: %d DFI commands judged %s, %d CAS matched to port commands, %d bigrams" % (
        cov["dfi_commands_judged"], cov["commands_by_type"], cov["cas_matched_to_port_commands"],
        len(cov["dfi_command_bigrams_seen"]))
