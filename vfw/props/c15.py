"""C15 -- ECC port corrects any single and flags any double bit error.  See DESIGN.md section 3/C15."""
import random

LEVEL = "fault_enumeration"
BATCH = 2
BATCH_TIMEOUT = 3000
RULE = ("[CORE CASES: a share of the cases (names core*) runs the same front-end and oracle on a port of the real LiteDRAMCrossbar + LiteDRAMController with the reference DRAM on DFI, refresh running, DFI protocol events of the reference model added to the witnesses] case = (ECC lane width 8/16/32/64 data bits, fault class, data words, seed) on LiteDRAMNativePortECC between a contract "
        "master and the pulsed core stub; faults are bit flips injected into the stub's store between the write and the "
        "read (class `pipelined`: groups of 3..8 reads issued back to back so that faulted beats return in consecutive "
        "cycles, all-single / all-double / alternating, judged on the counter deltas of the group): every single stored bit position of every lane incl. padding (exhaustive), every pair inside one lane "
        "(exhaustive for the 8-bit lane, sampled otherwise), pairs across two lanes, no flip, decoder disabled; byte-enable "
        "patterns all-ones / partial; black-box oracle per read on returned data and on the deltas of the sec / ded / "
        "we_error counters and sticky flags; non-trivial iff every code-bit position of the case's lanes was flipped at "
        "least once (single class) or >=40 faulted reads were judged; distinct = distinct (lane width, fault class, seed)")
ASSUMPTIONS = [
    "Migen simulator semantics; CSR.wr_stb aliased to the CSR write strobe by the harness shim (vfw/shim.py)",
    "a lane stores n+1 code bits in the low bits of its slot of the stored word, the remaining bits are padding",
    "exactly one stored bit per lane is the overall parity bit: for single flips the corrected-error counter may stay "
    "unchanged for at most one position per lane (the property's exception), which is checked as a count, not by position",
]
MIN_NONTRIVIAL = {"quick": 8, "thorough": 20}
CLASSES = ["single", "double-in-lane", "double-across-lanes", "clean-and-disabled", "byte-enables", "pipelined"]


def cases(tier, seed):
    out = []
    lanes = [8, 16, 32] if tier == "quick" else [8, 16, 32, 64]
    for lane in lanes:
        for cls in CLASSES:
            reps = 1 if tier == "quick" else 3
            for k in range(reps):
                # the exhaustive single-flip sweep is split by ECC lane so that it runs in parallel; the quick tier sweeps
                # all lanes of the narrow codes and two lanes (seed-rotated) of the 32-bit code
                if cls == "single":
                    subsets = [[ln] for ln in range(8)]
                    if tier == "quick" and lane >= 32:
                        subsets = [[(seed + k) % 8], [(seed + k + 3) % 8]]
                    if tier == "quick" and lane == 16:
                        subsets = [[0, 1], [2, 3], [4, 5], [6, 7]]
                    if lane == 8:
                        subsets = [[0, 1, 2, 3], [4, 5, 6, 7]]
                else:
                    subsets = [None]
                for si, sub in enumerate(subsets):
                    c = dict(lane=lane, cls=cls, rep=k, seed="C15/%d/%d/%s/%d/%d" % (seed, lane, cls, k, si), lanes_subset=sub,
                             npairs=60 if tier == "quick" else 160,
                             cmd_ready_prob=[1.0, 0.7, 0.4][(k + si) % 3], extra_lat=[(0, 0), (0, 6), (0, 20)][(k + si) % 3])
                    c["name"] = "lane%d-%s-%d%s" % (lane, cls, k, "" if sub is None else "-l" + "".join(map(str, sub)))
                    c["cost"] = lane * (3 if cls in ("single", "double-in-lane") else 1)
                    out.append(c)
    # the ECC port in front of a port of the real crossbar + controller + reference DRAM (faults flipped in the DRAM model)
    core = [(8, "single", [0, 1]), (8, "double-in-lane", None), (8, "byte-enables", None), (16, "single", [5]), (8, "clean-and-disabled", None),
            (16, "double-across-lanes", None), (8, "pipelined", None)]
    if tier != "quick":
        core += [(8, "single", [2, 3]), (8, "single", [4, 5]), (8, "single", [6, 7]), (16, "double-in-lane", None), (16, "byte-enables", None),
                 (32, "single", [seed % 8]), (32, "double-in-lane", None)] + [(16, "single", [ln]) for ln in range(8) if ln != 5]
    for k, (lane, cls, sub) in enumerate(core):
        if cls not in CLASSES:
            continue
        c = dict(core=True, lane=lane, cls=cls, rep=0, seed="C15/%d/core/%d" % (seed, k), lanes_subset=sub, npairs=40, cmd_ready_prob=1.0,
                 extra_lat=(0, 0), cmd_buffer_depth=[4, 8, 16][k % 3], refresh=(k % 4 != 3))
        c["name"] = "core-lane%d-%s%s" % (lane, cls, "" if sub is None else "-l" + "".join(map(str, sub)))
        c["cost"] = lane * 12
        out.append(c)
    return out


def run_case(c):
    from .. import shim  # noqa
    from migen import Module
    from litex.soc.cores.ecc import compute_m_n
    from litedram.common import LiteDRAMNativePort
    from litedram.frontend.ecc import LiteDRAMNativePortECC
    from ..stub import CoreStub, Store
    from ..core import run_sim
    r = random.Random(c["seed"])
    lane = c["lane"]
    BC = 8
    m_, n = compute_m_n(lane)
    code_bits = n + 1
    user_dw = lane * BC
    slot = 8
    while slot < code_bits:
        slot *= 2
    stored_dw = slot * BC
    aw = 10
    class DUT(Module):
        def __init__(self):
            self.port_from = LiteDRAMNativePort("both", aw, user_dw)
            self.port_to = LiteDRAMNativePort("both", aw, stored_dw)
            self.submodules.ecc = LiteDRAMNativePortECC(self.port_from, self.port_to, burst_cycles=BC, with_we_error_detection=True)

    if c.get("core"):
        from ..corebackend import CoreBackend
        stub = CoreBackend(1, databits=stored_dw, refresh=c["refresh"], cmd_buffer_depth=c["cmd_buffer_depth"],
                           init_fn=lambda rank, bank, row, col, nb: bytes(nb))
        dut = stub.dut
        dut.port_from = LiteDRAMNativePort("both", stub.ports[0].address_width, user_dw)
        dut.port_to = stub.ports[0]
        dut.submodules.ecc = LiteDRAMNativePortECC(dut.port_from, dut.port_to, burst_cycles=BC, with_we_error_detection=True)
        store = stub.store
        mem_procs = stub.processes()
    else:
        dut = DUT()
        store = Store(stored_dw // 8, pattern=lambda a, nb: bytes(nb))
        stub = CoreStub([dut.port_to], store, r, cmd_ready_prob=c["cmd_ready_prob"], extra_lat=tuple(c["extra_lat"]))
        mem_procs = [stub.process()]
    ecc = dut.ecc
    port = dut.port_from
    full_we = (1 << (user_dw // 8)) - 1
    cls = c["cls"]
    # ---------------------------------------------------------------- fault plan: list of (flips, kind)
    plan = []
    if cls == "single":
        for ln in (c.get("lanes_subset") or range(BC)):
            for p in range(slot):
                plan.append(([(ln, p)], "single" if p < code_bits else "padding"))
    elif cls == "double-in-lane":
        pairs = [(a, b) for a in range(code_bits) for b in range(a + 1, code_bits)]
        if lane > 8:
            pairs = r.sample(pairs, c.get("npairs", 160))
        for (a, b) in pairs:
            ln = r.randrange(BC)
            plan.append(([(ln, a), (ln, b)], "double"))
    elif cls == "double-across-lanes":
        for k in range(64):
            l1, l2 = r.sample(range(BC), 2)
            plan.append(([(l1, r.randrange(code_bits)), (l2, r.randrange(code_bits))], "two-singles"))
        # one lane with a single flip and another lane of the same beat with a double flip: both events must be reported
        for k in range(32):
            l1, l2 = r.sample(range(BC), 2)
            b, c2 = r.sample(range(code_bits), 2)
            plan.append(([(l1, r.randrange(code_bits)), (l2, b), (l2, c2)], "single-plus-double"))
    elif cls == "clean-and-disabled":
        for k in range(24):
            plan.append(([], "clean"))
        for k in range(24):
            ln = r.randrange(BC)
            f = [(ln, r.randrange(code_bits))] + ([(ln, r.randrange(code_bits))] if k % 2 else [])
            plan.append((list(set(f)), "disabled"))
    elif cls == "pipelined":
        # groups of reads issued back to back; every beat of a group carries a fault: all single (same bit position, random
        # lanes), all double, or alternating; a clean beat now and then
        groups = []
        for g in range(36):
            n = r.randint(3, 8)
            p1 = r.randrange(code_bits)
            style = ["singles", "doubles", "alternating", "singles-with-clean"][g % 4]
            for j in range(n):
                ln = r.randrange(BC)
                if style == "singles" or (style == "alternating" and j % 2 == 0) or (style == "singles-with-clean" and j % 3 != 1):
                    plan.append(([(ln, p1)], "single"))
                elif style == "singles-with-clean":
                    plan.append(([], "clean"))
                else:
                    a, b = r.sample(range(code_bits), 2)
                    plan.append(([(ln, a), (ln, b)], "double"))
            groups.append((len(plan) - n, n, p1, style))
    else:
        plan = [([], "we")] * 40
    nwords = len(plan)
    patterns = [0, (1 << user_dw) - 1] + [1 << r.randrange(user_dw) for _ in range(4)]
    data = [patterns[k] if k < len(patterns) else r.getrandbits(user_dw) for k in range(nwords)]
    wemasks = [full_we] * nwords
    if cls == "byte-enables":
        for k in range(nwords):
            if k % 2 == 1 and lane > 8:
                ln = r.randrange(BC)
                bpl = lane // 8
                part = r.randrange(1, (1 << bpl) - 1)       # some but not all bytes of one lane
                wemasks[k] = (full_we & ~(((1 << bpl) - 1) << (ln * bpl))) | (part << (ln * bpl))
    res = dict(v=[], judged=0, sec_exceptions={}, positions=set(), mixed_sec_exceptions=set())
    counters = [ecc.sec_errors.status, ecc.ded_errors.status, ecc.sec_detected, ecc.ded_detected, ecc.we_errors.status]
    state = dict(done=False)

    def wait(ncyc):
        for _ in range(ncyc):
            yield

    def do_cmd(we, addr, wd=0, wm=0):
        """holds cmd (and wdata) until accepted; returns read data for reads"""
        yield [port.cmd.valid.eq(1), port.cmd.we.eq(we), port.cmd.addr.eq(addr)]
        if we:
            yield [port.wdata.valid.eq(1), port.wdata.data.eq(wd), port.wdata.we.eq(wm)]
        cmd_done = False
        w_done = not we
        rdata = None
        yield
        guard = 0
        while not (cmd_done and w_done and (we or rdata is not None)):
            cr, wr, rv, rd = yield [port.cmd.ready, port.wdata.ready, port.rdata.valid, port.rdata.data]
            stm = []
            if not cmd_done and cr:
                cmd_done = True
                stm.append(port.cmd.valid.eq(0))
            if not w_done and wr:
                w_done = True
                stm.append(port.wdata.valid.eq(0))
            if not we and rv:
                rdata = rd
            if stm:
                yield stm
            guard += 1
            if guard > 3000:
                res["v"].append(dict(kind="no-progress", we=we, addr=addr))
                state["done"] = True
                return None
            yield
        return rdata

    def do_reads(addrs):
        """reads issued back to back (a new command every cycle the port accepts one); returns the beats in order"""
        i, got, guard = 0, [], 0
        yield [port.cmd.valid.eq(1), port.cmd.we.eq(0), port.cmd.addr.eq(addrs[0])]
        yield
        while len(got) < len(addrs):
            cr, rv, rd = yield [port.cmd.ready, port.rdata.valid, port.rdata.data]
            stm = []
            if i < len(addrs) and cr:
                i += 1
                stm.append(port.cmd.addr.eq(addrs[i]) if i < len(addrs) else port.cmd.valid.eq(0))
            if rv:
                got.append((rd, guard))
            if stm:
                yield stm
            guard += 1
            if guard > 4000:
                res["v"].append(dict(kind="no-progress", we=0, addr=addrs[0], pipelined=len(addrs), beats=len(got)))
                state["done"] = True
                return None
            yield
        return got

    def main_pipelined():
        uncounted = set()
        for (k0, n, p1, style) in groups:
            for k in range(k0, k0 + n):
                w = store.get(k)
                for (ln, p) in plan[k][0]:
                    bit = ln * slot + p
                    w[bit // 8] ^= 1 << (bit % 8)
            before = yield counters
            got = yield from do_reads(list(range(k0, k0 + n)))
            if state["done"]:
                return
            yield from wait(6)
            after = yield counters
            d_sec, d_ded = after[0] - before[0], after[1] - before[1]
            kinds = [plan[k][1] for k in range(k0, k0 + n)]
            ns, nd = kinds.count("single"), kinds.count("double")
            res["judged"] += n
            res["consecutive_beats"] = res.get("consecutive_beats", 0) + sum(1 for j in range(1, n) if got[j][1] == got[j - 1][1] + 1)
            w_ = dict(first_index=k0, kinds=kinds, single_position=p1, lane_bits=lane, sec_delta=d_sec, ded_delta=d_ded,
                      beat_cycles=[t for (_, t) in got])
            for j, k in enumerate(range(k0, k0 + n)):
                if kinds[j] != "double" and got[j][0] != data[k]:
                    res["v"].append(dict(w_, problem="pipelined reads: %s beat %d returned wrong data" % (kinds[j], j)))
                    break
            if d_ded != nd:
                res["v"].append(dict(w_, problem="pipelined reads: %d beats with a double flip, uncorrectable count moved by %d" % (nd, d_ded)))
            if d_sec == 0 and ns:
                uncounted.add(p1)
            elif d_sec != ns:
                res["v"].append(dict(w_, problem="pipelined reads: %d beats with a single flip, corrected count moved by %d" % (ns, d_sec)))
        if len(uncounted) > 1:
            res["v"].append(dict(kind="single-flips-not-counted-as-corrected", positions=sorted(uncounted), lane_bits=lane,
                                 note="pipelined groups; at most the overall parity bit may go uncounted"))
        state["done"] = True

    def main():
        yield port.rdata.ready.eq(1)
        yield from wait(3)
        # clear counters through the CSR strobe
        yield ecc.clear.re.eq(1)
        yield
        yield ecc.clear.re.eq(0)
        yield
        # ---- writes
        for k in range(nwords):
            before = yield counters
            yield from do_cmd(1, k, data[k], wemasks[k])
            if state["done"]:
                return
            yield from wait(3)
            after = yield counters
            if cls == "byte-enables":
                res["judged"] += 1
                d_we = after[4] - before[4]
                if wemasks[k] == full_we and d_we != 0:
                    res["v"].append(dict(kind="full-write-reported-as-granularity-error", index=k, we_errors_delta=d_we, lane_bits=lane))
                if wemasks[k] != full_we and d_we == 0:
                    res["v"].append(dict(kind="partial-write-not-reported", index=k, wemask=hex(wemasks[k]), lane_bits=lane))
        # wait until every write reached the store
        for _ in range(4000):
            if stub.outstanding() == 0 and len(stub.wbeats[0]) >= nwords:
                break
            yield
        yield from wait(5)
        if cls == "byte-enables":
            state["done"] = True
            return
        if cls == "pipelined":
            yield from main_pipelined()
            return
        # ---- inject faults, read back one at a time
        for k, (flips, kind) in enumerate(plan):
            w = store.get(k)
            for (ln, p) in flips:
                bit = ln * slot + p
                w[bit // 8] ^= 1 << (bit % 8)
            if kind == "disabled":
                yield ecc.enable.storage.eq(0)
                yield
            before = yield counters
            rd = yield from do_cmd(0, k)
            if state["done"]:
                return
            yield from wait(4)
            after = yield counters
            if kind == "disabled":
                yield ecc.enable.storage.eq(1)
                yield
            d_sec, d_ded = after[0] - before[0], after[1] - before[1]
            res["judged"] += 1
            w_ = dict(index=k, kind=kind, flips=flips, lane_bits=lane, sec_delta=d_sec, ded_delta=d_ded)
            if kind in ("clean", "padding"):
                if rd != data[k] or d_sec or d_ded:
                    res["v"].append(dict(w_, problem="unfaulted word changed or flagged", data_ok=rd == data[k]))
            elif kind == "single":
                ln, p = flips[0]
                res["positions"].add((ln, p))
                if rd != data[k]:
                    res["v"].append(dict(w_, problem="single flip not corrected", expected=hex(data[k]), got=hex(rd)))
                if d_ded or (after[3] and not before[3]):
                    res["v"].append(dict(w_, problem="single flip reported as uncorrectable"))
                if d_sec > 1:
                    res["v"].append(dict(w_, problem="single flip counted more than once"))
                if d_sec == 0:
                    res["sec_exceptions"].setdefault(ln, []).append(p)
            elif kind == "double":
                if d_ded != 1:
                    res["v"].append(dict(w_, problem="double flip not counted as uncorrectable"))
                if d_sec:
                    res["v"].append(dict(w_, problem="double flip counted as corrected"))
                if not after[3]:
                    res["v"].append(dict(w_, problem="double flip: sticky detect flag not set"))
            elif kind == "two-singles":
                if rd != data[k]:
                    res["v"].append(dict(w_, problem="independent single flips in two lanes not corrected"))
                if d_ded:
                    res["v"].append(dict(w_, problem="independent single flips reported as uncorrectable"))
            elif kind == "single-plus-double":
                l1, p1 = flips[0]
                lane_mask = ((1 << lane) - 1) << (l1 * lane)
                if (rd ^ data[k]) & lane_mask:
                    res["v"].append(dict(w_, problem="single flip beside a double flip in another lane: its own lane not corrected"))
                if d_ded != 1:
                    res["v"].append(dict(w_, problem="double flip (beside a single flip in another lane) not counted as uncorrectable"))
                if d_sec == 0:
                    res["mixed_sec_exceptions"].add(p1)
            elif kind == "disabled":
                if d_sec or d_ded:
                    res["v"].append(dict(w_, problem="decoder disabled but errors were counted"))
            if kind == "single" and d_sec == 1 and rd == data[k]:
                res["a_counted_single"] = k
            if kind == "double" and d_ded == 1:
                res["a_double"] = k
        # ---- clear: counters and sticky flags go back to zero and counting restarts (the faulted words are still in the store)
        for rnd in range(2):
            yield ecc.clear.re.eq(1)
            yield
            yield ecc.clear.re.eq(0)
            yield from wait(2)
            after = yield counters
            if any(after[:4]):
                res["v"].append(dict(kind="clear-does-not-reset-status", sec_errors=after[0], ded_errors=after[1], sec_detected=after[2],
                                     ded_detected=after[3], lane_bits=lane, round=rnd))
                break
            res["clears_judged"] = res.get("clears_judged", 0) + 1
            k1, k2 = res.get("a_counted_single"), res.get("a_double")
            if k1 is not None:
                rd = yield from do_cmd(0, k1)
                if state["done"]:
                    return
                yield from wait(4)
                after = yield counters
                if rd != data[k1] or after[:4] != [1, 0, 1, 0]:
                    res["v"].append(dict(kind="status-after-clear-and-one-corrected-error", expected=[1, 0, 1, 0], got=after[:4],
                                         data_ok=rd == data[k1], lane_bits=lane, round=rnd))
                    break
            if k2 is not None:
                before = yield counters
                yield from do_cmd(0, k2)
                if state["done"]:
                    return
                yield from wait(4)
                after = yield counters
                if after[1] - before[1] != 1 or not after[3] or after[0] != before[0]:
                    res["v"].append(dict(kind="status-after-clear-and-one-uncorrectable-error", before=before[:4], after=after[:4],
                                         lane_bits=lane, round=rnd))
                    break
        # ---- counters near the top of their range (state hook: the two count registers are preloaded): further errors must
        # still be counted, i.e. the counts never go down -- they stop at the maximum
        k1, k2 = res.get("a_counted_single"), res.get("a_double")
        if (k1 is not None or k2 is not None) and not res["v"]:
            top = (1 << len(ecc.sec_errors.status)) - 1
            yield [ecc.sec_errors.status.eq(top - 1), ecc.ded_errors.status.eq(top - 1)]
            yield
            prev = yield counters
            for rep in range(3):
                for kk in (k1, k2):
                    if kk is None:
                        continue
                    yield from do_cmd(0, kk)
                    if state["done"]:
                        return
                    yield from wait(4)
                    now = yield counters
                    if now[0] < prev[0] or now[1] < prev[1]:
                        res["v"].append(dict(kind="error-count-went-down-near-the-top-of-its-range", before=[hex(prev[0]), hex(prev[1])],
                                             after=[hex(now[0]), hex(now[1])], lane_bits=lane))
                        state["done"] = True
                        return
                    prev = now
            if (k1 is not None and prev[0] != top) or (k2 is not None and prev[1] != top):
                res["v"].append(dict(kind="error-count-did-not-reach-its-maximum", counts=[hex(prev[0]), hex(prev[1])], lane_bits=lane))
            res["saturation_judged"] = 1
        state["done"] = True

    cycles, reason = run_sim(dut, mem_procs + [main()], lambda: state["done"], 400000, wall_limit=2400)
    if reason == "wall":
        return dict(verdict="inconclusive", why="wall-clock watchdog", violations=[], stats={}, nontrivial=False, signature="")
    v = res["v"] + list(stub.events) + (stub.dfi_events() if c.get("core") else [])
    if reason == "cycle-cap":
        v.append(dict(kind="no-progress"))
    if len(res["mixed_sec_exceptions"]) > 1:
        v.append(dict(kind="single-flip-beside-double-flip-not-counted-as-corrected", positions=sorted(res["mixed_sec_exceptions"]),
                      lane_bits=lane, note="at most one position (the overall parity bit) may go uncounted"))
    # the only tolerated "not counted" single flips: one position per lane, the same in every lane
    if cls == "single":
        for ln, ps in res["sec_exceptions"].items():
            if len(ps) > 1:
                v.append(dict(kind="single-flips-not-counted-as-corrected", lane=ln, positions=ps, lane_bits=lane,
                              note="at most the overall parity bit may go uncounted"))
        pos = set(tuple(ps) for ps in res["sec_exceptions"].values())
        if len(pos) > 1:
            v.append(dict(kind="uncounted-position-differs-between-lanes", positions=sorted(pos)))
    st = dict(reads_or_writes_judged=res["judged"], cycles=cycles, code_bits=code_bits, slot_bits=slot, lanes=BC,
              consecutive_faulted_beats=res.get("consecutive_beats", 0), clears_judged=res.get("clears_judged", 0), saturation_judged=res.get("saturation_judged", 0), single_positions_flipped=len(res["positions"]), uncounted_single_positions=sorted(set(p for ps in res["sec_exceptions"].values() for p in ps)))
    if cls == "single":
        nontrivial = len(res["positions"]) >= code_bits * len(c.get("lanes_subset") or range(BC))
    else:
        nontrivial = res["judged"] >= 40
    return dict(verdict="violated" if v else "held", violations=v[:10], stats=st, nontrivial=bool(nontrivial) or bool(v),
                signature=c["name"])


def aggregate(results, cases):
    tot = dict(judged=0, single_positions_flipped=0)
    for r in results:
        st = r.get("stats") or {}
        tot["judged"] += st.get("reads_or_writes_judged", 0) or 0
        tot["single_positions_flipped"] += st.get("single_positions_flipped", 0) or 0
    by = {c["name"]: c for c in cases}
    samples = [dict(case=by.get(r["name"]), verdict=r["verdict"], stats=r.get("stats")) for r in results[:3]]
    return dict(observed=tot, lanes=sorted(set(c["lane"] for c in cases)), samples=samples)


def summary(cov):
    return "  observed: %d faulted / clean accesses judged, %d distinct single-bit positions flipped, lane widths %s" % (
        cov["observed"]["judged"], cov["observed"]["single_positions_flipped"], cov["lanes"])
