"""C19 -- bundled DRAM simulation model agrees with an independent DRAM model.  See DESIGN.md section 3/C19."""
import random

LEVEL = "exploration"
BATCH = 1
BATCH_TIMEOUT = 3000
RULE = ("case = (memory type / PHY settings from get_sdram_phy_settings, tiny geometry with colbits 8..11, we_granularity, "
        "auto-precharge, init image + address mapping, trace source: (a) the real controller+crossbar under random port "
        "traffic, (b) a random legal-trace generator driving the model's DFI directly: bank state machine + spacing rules, "
        "masks of every shape, back-to-back bursts across banks, precharge-all mid-stream; seed); the reference DRAM listens "
        "passively on the same DFI; oracle: for every RD the model's rddata in the cycle the advertised read_latency "
        "demands equals the reference's, rddata_valid is raised in exactly those cycles, a final read sweep of every touched "
        "location agrees, initial contents follow an independent layout of the init image; non-trivial iff >=40 reads were "
        "compared, >=1 masked write and >=1 read of a location written earlier occurred; distinct = distinct (memtype, "
        "geometry, source, options)")
ASSUMPTIONS = [
    "Migen simulator semantics; model memories kept <= 16 Ki words (the simulator lowers every Memory word to a signal)",
    "legal trace = JEDEC bank state machine plus generous fixed spacings (the model has no timing behaviour of its own)",
    "reference DRAM's DFI data contract as validated against the real controller (C01)",
]
MIN_NONTRIVIAL = {"quick": 8, "thorough": 30}
MEMTYPES = ["SDR", "DDR", "LPDDR", "DDR2", "DDR3", "DDR4"]


def cases(tier, seed):
    n = 32 if tier == "quick" else 200
    out = []
    for k in range(n):
        r = random.Random("C19/%d/%s/%d" % (seed, tier, k))
        mt = MEMTYPES[k % len(MEMTYPES)]
        src = ["controller", "generator", "generator", "init"][(k // len(MEMTYPES)) % 4]
        colbits = [9, 10, 8, 11, 10, 9][(k // 3) % 6]
        c = dict(memtype=mt, source=src, colbits=colbits, rowbits=r.choice([3, 4]), bankbits=r.choice([1, 2]),
                 databits=r.choice([8, 16]), we_granularity=8 if k % 5 else 0, auto_precharge=bool(k % 2),
                 mapping=["ROW_BANK_COL", "BANK_ROW_COL"][k % 2], clk_freq=r.choice([100e6, 125e6]), nops=r.randint(80, 140),
                 seed="C19/%d/%d" % (seed, k))
        if colbits == 11:
            c["rowbits"] = 3
            c["bankbits"] = 1
        c["name"] = "%03d-%s-%s-c%d-g%d" % (k, mt, src, colbits, c["we_granularity"])
        c["cost"] = 30 if src == "controller" else 8
        out.append(c)
    return out


def build_module(c):
    from litedram import modules as M
    from litedram.phy.model import sdram_module_nphases
    nph = sdram_module_nphases[c["memtype"]]
    base = {"SDR": M.SDRModule, "DDR": M.DDRModule, "LPDDR": M.LPDDRModule, "DDR2": M.DDR2Module, "DDR3": M.DDR3Module,
            "DDR4": M.DDR4Module}[c["memtype"]]

    class Tiny(base):
        nbanks = 1 << c["bankbits"]
        nrows = 1 << c["rowbits"]
        ncols = 1 << c["colbits"]
        ddr4 = c["memtype"] == "DDR4"
        technology_timings = M._TechnologyTimings(
            tREFI={"1x": 64e6 / 8192, "2x": 64e6 / 16384, "4x": 64e6 / 32768} if ddr4 else 64e6 / 8192,
            tWTR=(2, 7.5), tCCD=(1 if nph == 1 else 2, None), tRRD=(None, 10), tZQCS=None)
        speedgrade_timings = {"default": M._SpeedgradeTimings(
            tRP=15, tRCD=15, tWR=15, tRFC={"1x": (None, 60), "2x": (None, 50), "4x": (None, 40)} if ddr4 else (None, 60), tFAW=None, tRAS=40)}

    m = Tiny(c["clk_freq"], "1:%d" % nph)
    # A10 must exist on the address bus (true of every real part); columns above A10 need one more pin
    m.geom_settings.addressbits = max(11, c["colbits"] + (1 if c["colbits"] > 10 else 0), c["rowbits"])
    return m, nph


def run_case(c):
    from .. import shim  # noqa
    from migen import Module
    from litedram.phy.model import SDRAMPHYModel, get_sdram_phy_settings
    from litedram.common import burst_lengths
    from litedram.core.controller import ControllerSettings, LiteDRAMController
    from litedram.core.crossbar import LiteDRAMCrossbar
    from ..refdram import RefDRAM
    from ..core import run_sim, AddressMap
    from ..ports import Op, MemOracle, NativeMaster
    from ..wholecore import heavy_gap, rand_wemask
    r = random.Random(c["seed"])
    module, nph = build_module(c)
    settings = get_sdram_phy_settings(c["memtype"], c["databits"], c["clk_freq"])
    dfi_db = settings.dfi_databits
    wbytes = dfi_db * nph // 8
    bl = nph if c["memtype"] == "SDR" else burst_lengths[c["memtype"]]
    align = bl.bit_length() - 1
    nbanks, nrows, ncols = 1 << c["bankbits"], 1 << c["rowbits"], 1 << c["colbits"]
    colw = ncols // bl
    # ---- init image and its independent layout
    init = []
    image_words = 0
    if c["source"] == "init" or r.random() < 0.3:
        image_words = r.randint(8, nbanks * nrows * colw * wbytes // 4)
        init = [r.getrandbits(32) for _ in range(image_words)]

    def init_fn(rank, bank, row, col, nbytes):
        if not init:
            return bytes(nbytes)
        cw = col >> align
        if c["mapping"] == "ROW_BANK_COL":
            widx = (row * nbanks + bank) * colw + cw
        else:
            widx = (bank * nrows + row) * colw + cw
        out = bytearray(nbytes)
        for i in range(nbytes):
            ba = widx * nbytes + i
            if ba // 4 < len(init):
                out[i] = (init[ba // 4] >> (8 * (ba % 4))) & 0xFF
        return bytes(out)

    class DUT(Module):
        def __init__(self):
            self.submodules.model = SDRAMPHYModel(module, settings, we_granularity=c["we_granularity"], init=list(init),
                                                  address_mapping=c["mapping"])
            if c["source"] == "controller":
                cs = ControllerSettings(with_auto_precharge=c["auto_precharge"], cmd_buffer_depth=4)
                module.timing_settings.tREFI = 180
                self.submodules.controller = LiteDRAMController(settings, module.geom_settings, module.timing_settings, c["clk_freq"], cs)
                self.submodules.crossbar = LiteDRAMCrossbar(self.controller.interface)
                self.port = self.crossbar.get_port()
                self.comb += self.controller.dfi.connect(self.model.dfi)
                self.dfi = self.controller.dfi
            else:
                self.dfi = self.model.dfi

    dut = DUT()
    ref = RefDRAM(dut.dfi, nph, 1, c["bankbits"], dfi_db, settings.read_latency, settings.write_latency, None, None,
                  passive_data=True, init_fn=init_fn)
    v = []
    state = dict(done=False)
    stats = dict(masked_writes=0)
    if c["source"] == "controller":
        amap = AddressMap(c["memtype"], nph, 1, c["bankbits"], c["rowbits"], c["colbits"], wbytes, 0)
        oracle = MemOracle(wbytes, init=lambda a: init_fn(*((0,) + amap.locate(a)[1:3] + (amap.locate(a)[3] << align,)), wbytes))
        ops = []
        hot = [r.randrange(1 << amap.aw) for _ in range(12)]
        for k in range(c["nops"]):
            we = r.random() < 0.5
            o = Op(heavy_gap(r, 0.4), we, r.choice(hot) if r.random() < 0.8 else r.randrange(1 << amap.aw))
            if we:
                o.data = r.getrandbits(8 * wbytes)
                o.wemask = rand_wemask(r, wbytes, "mixed") if c["we_granularity"] else (1 << wbytes) - 1
                if o.wemask != (1 << wbytes) - 1:
                    stats["masked_writes"] += 1
            ops.append(o)
        # read back everything touched at the end
        for a in sorted(set(o.addr for o in ops)):
            ops.append(Op(0, False, a))
        viol = []
        m = NativeMaster(dut.port, ops, 0, oracle, "fifo", viol)

        def done_fn():
            if m.idle():
                state.setdefault("t", m.cycle)
                return m.cycle - state["t"] > 40
            return False
        procs = [ref.process(), m.process()]
        cycles, reason = run_sim(dut, procs, done_fn, 30000, wall_limit=1500)
        for x in viol:
            x["through"] = "controller port (model as DRAM)"
        v += viol
    else:
        gen = LegalTraceGenerator(dut.dfi, nph, c, settings, r, stats, bl, init_only=(c["source"] == "init"))
        cycles, reason = run_sim(dut, [ref.process(), gen.process()], lambda: gen.done, 60000, wall_limit=1500)
    if reason == "wall":
        return dict(verdict="inconclusive", why="wall-clock watchdog", violations=[], stats={}, nontrivial=False, signature="")
    # ---- compare the model's read data with the reference, burst by burst
    compared = raw = 0
    due = set()
    for (d, data, e) in ref.expected_rd:
        due.add(d)
        obs = ref.observed_rd.get(d)
        if obs is None:
            continue
        compared += 1
        if (e["rank"], e["bank"], e["row"], e["col"]) in ref.written:
            raw += 1
        got, vbits = obs
        if got != data and len(v) < 10:
            v.append(dict(kind="model-read-data-differs-from-reference", cycle=d, bank=e["bank"], row=e["row"], col=e["col"],
                          bus_address=e.get("addr"), expected="%0*x" % (2 * wbytes, data), got="%0*x" % (2 * wbytes, got), colbits=c["colbits"],
                          bank_open=e["open"]))
        # the property asks for the data at the advertised latency; which phases carry the valid flag is not part of it
        if vbits == 0 and len(v) < 10:
            v.append(dict(kind="rddata_valid-not-raised-at-advertised-latency", cycle=d, valid_bits=vbits))
    extra = [x for x in ref.valid_cycles if x not in due]
    if extra:
        v.append(dict(kind="rddata_valid-without-read", cycles=extra[:5]))
    for e in ref.events:
        if e["kind"] in ("rd-to-closed-bank", "wr-to-closed-bank", "act-to-open-bank"):
            v.append(dict(kind="harness-trace-not-legal", event=e))
            break
    st = dict(reads_compared=compared, reads_of_written_locations=raw, writes=len(ref.wr_log), masked_writes=stats["masked_writes"],
              cycles_with_two_commands=stats.get("second_cmd_in_cycle", 0),
              commands=len(ref.cmds), cycles=cycles, image_words=image_words, colbits=c["colbits"])
    for x in v:
        x["colbits"] = c["colbits"]
    nontrivial = compared >= 40 and (raw >= 1 or c["source"] == "init") and (stats["masked_writes"] >= 1 or not c["we_granularity"] or c["source"] == "init")
    sig = "|".join(str(x) for x in (c["memtype"], c["colbits"], c["bankbits"], c["source"], c["we_granularity"], c["mapping"], bool(init)))
    return dict(verdict="violated" if v else "held", violations=v[:8], stats=st, nontrivial=bool(nontrivial) or bool(v), signature=sig)


class LegalTraceGenerator:
    """Drives the model's DFI with random legal commands (one command per cycle at most, on a random phase)."""

    def __init__(self, dfi, nph, c, settings, rng, stats, bl, init_only=False):
        self.dfi, self.nph, self.c, self.s, self.r, self.stats, self.bl = dfi, nph, c, settings, rng, stats, bl
        self.done = False
        self.init_only = init_only

    def process(self):
        dfi, nph, c, s, r = self.dfi, self.nph, self.c, self.s, self.r
        nbanks, nrows, ncols = 1 << c["bankbits"], 1 << c["rowbits"], 1 << c["colbits"]
        wl, rl = s.write_latency, s.read_latency
        dfi_db = s.dfi_databits
        open_row = {}
        last_act = {}
        busy_until = {}      # bank -> cycle until which it may not be re-activated (write with auto-precharge still completing)
        touched = []
        pending_wr = {}      # cycle -> (data, mask) to put on the bus
        cyc = 0
        nops = c["nops"] * (2 if not self.init_only else 1)
        last_cas = -10
        last_wr = -10
        last_rd = -10
        last_cas_b = {}      # bank -> cycle of its last CAS
        idle = [p.cs_n.eq(1) for p in dfi.phases] + [p.ras_n.eq(1) for p in dfi.phases] + [p.cas_n.eq(1) for p in dfi.phases] + \
               [p.we_n.eq(1) for p in dfi.phases]

        def colbus(cw):
            col = cw * self.bl
            return (col & 0x3FF) | ((col >> 10) << 11)

        def cmd(ph, ras, cas, we, bank, addr):
            p = dfi.phases[ph]
            return [p.cs_n.eq(0), p.ras_n.eq(1 - ras), p.cas_n.eq(1 - cas), p.we_n.eq(1 - we), p.bank.eq(bank), p.address.eq(addr)]

        def data_stm():
            stm = []
            d, mk = pending_wr.pop(cyc + 1, (r.getrandbits(dfi_db * nph), r.getrandbits(dfi_db * nph // 8)))
            for ph, p in enumerate(dfi.phases):
                stm += [p.wrdata.eq((d >> (ph * dfi_db)) & ((1 << dfi_db) - 1)), p.wrdata_mask.eq((mk >> (ph * dfi_db // 8)) & ((1 << (dfi_db // 8)) - 1))]
            return stm

        yield idle
        yield
        issued = 0
        sweep = None
        while True:
            stm = list(idle)
            ph = r.randrange(nph)
            choice = r.random()
            cas_bank = None
            banks_open = list(open_row.keys())
            can_cas = cyc - last_cas >= 2
            if sweep is None and issued >= nops:
                sweep = list(dict.fromkeys(touched))
                if self.init_only:
                    sweep = [(b, rw, cw) for b in range(nbanks) for rw in range(nrows) for cw in range(0, ncols // self.bl, max(1, ncols // self.bl // 8))]
            if sweep is not None:
                # final read-back of every touched location
                if not sweep:
                    if cyc - last_rd > rl + 6:
                        self.done = True
                        return
                elif can_cas and cyc - last_wr > wl + 6:
                    b, rw, cw = sweep[0]
                    if open_row.get(b) == rw and cyc - last_act.get(b, -10) >= r.choice([1, 2, 3]):
                        stm += cmd(ph, 0, 1, 0, b, colbus(cw))
                        stm += [dfi.phases[ph].rddata_en.eq(1)]
                        last_cas = last_rd = cyc
                        sweep.pop(0)
                    elif b in open_row and open_row[b] != rw:
                        if cyc - last_cas > wl + 6:
                            stm += cmd(ph, 1, 0, 1, b, 0)
                            del open_row[b]
                    elif b not in open_row and busy_until.get(b, 0) <= cyc:
                        stm += cmd(ph, 1, 0, 0, b, rw)
                        open_row[b] = rw
                        last_act[b] = cyc
            elif choice < 0.25 and [x for x in range(nbanks) if x not in open_row and busy_until.get(x, 0) <= cyc]:
                b = r.choice([x for x in range(nbanks) if x not in open_row and busy_until.get(x, 0) <= cyc])
                rw = r.randrange(nrows)
                stm += cmd(ph, 1, 0, 0, b, rw)
                open_row[b] = rw
                last_act[b] = cyc
                issued += 1
            elif choice < 0.32 and banks_open and cyc - last_cas > wl + 6:
                if r.random() < 0.3:
                    stm += cmd(ph, 1, 0, 1, r.randrange(nbanks), 1 << 10)      # precharge-all
                    open_row.clear()
                else:
                    b = r.choice(banks_open)
                    stm += cmd(ph, 1, 0, 1, b, 0)
                    del open_row[b]
                issued += 1
            elif banks_open and can_cas and not self.init_only:
                # column command as early as the cycle after the ACTIVATE (tRCD of one controller cycle, as at low clocks)
                min_gap = r.choice([1, 1, 2, 3])
                ready = [b for b in banks_open if cyc - last_act[b] >= min_gap]
                if ready:
                    b = r.choice(ready)
                    cw = r.randrange(ncols // self.bl) if r.random() < 0.5 else r.randrange(4)
                    is_wr = r.random() < 0.5
                    ap = c["auto_precharge"] and r.random() < 0.2
                    if is_wr and cyc - last_rd > rl + 2:
                        full = (1 << (dfi_db * nph // 8)) - 1
                        mk = 0 if (r.random() < 0.5 or not c["we_granularity"]) else r.getrandbits(dfi_db * nph // 8)
                        if mk:
                            self.stats["masked_writes"] += 1
                        pending_wr[cyc + 1 + wl] = (r.getrandbits(dfi_db * nph), mk)
                        stm += cmd(ph, 0, 1, 1, b, colbus(cw) | ((1 << 10) if ap else 0))
                        stm += [dfi.phases[ph].wrdata_en.eq(1)]
                        last_cas = last_wr = cyc
                        cas_bank = b
                        last_cas_b[b] = cyc
                        touched.append((b, open_row[b], cw))
                        issued += 1
                    elif not is_wr and cyc - last_wr > wl + 3:
                        stm += cmd(ph, 0, 1, 0, b, colbus(cw) | ((1 << 10) if ap else 0))
                        stm += [dfi.phases[ph].rddata_en.eq(1)]
                        last_cas = last_rd = cyc
                        cas_bank = b
                        last_cas_b[b] = cyc
                        issued += 1
                    else:
                        ap = False
                    if ap and (last_cas == cyc):
                        del open_row[b]
                        busy_until[b] = cyc + wl + 8     # write recovery + precharge before the bank may be activated again
            if cas_bank is not None and nph > 1 and r.random() < 0.45:
                # like the controller: a row command for another bank on another phase of the cycle that carries a CAS
                ph2 = r.choice([x for x in range(nph) if x != ph])
                can_pre = [x for x in open_row if x != cas_bank and cyc - last_cas_b.get(x, -100) > wl + 8 and cyc - last_act.get(x, -10) >= 3]
                can_act = [x for x in range(nbanks) if x not in open_row and x != cas_bank and busy_until.get(x, 0) <= cyc]
                if can_pre and (not can_act or r.random() < 0.5):
                    b2 = r.choice(can_pre)
                    stm += cmd(ph2, 1, 0, 1, b2, 0)
                    del open_row[b2]
                    self.stats["second_cmd_in_cycle"] = self.stats.get("second_cmd_in_cycle", 0) + 1
                elif can_act:
                    b2 = r.choice(can_act)
                    rw2 = r.randrange(nrows)
                    stm += cmd(ph2, 1, 0, 0, b2, rw2)
                    open_row[b2] = rw2
                    last_act[b2] = cyc
                    self.stats["second_cmd_in_cycle"] = self.stats.get("second_cmd_in_cycle", 0) + 1
            # strobes: clear unless set above (order of statements: later wins)
            clr = []
            for p in dfi.phases:
                clr += [p.wrdata_en.eq(0), p.rddata_en.eq(0)]
            yield clr + stm + data_stm()
            yield
            cyc += 1
