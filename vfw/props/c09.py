"""C09 -- AXI port: protocol-correct responses and memory semantics.  See DESIGN.md section 3/C09."""
import random

LEVEL = "exploration"
BATCH = 8
BATCH_TIMEOUT = 3000
RULE = ("[CORE CASES: a share of the cases (names core*) runs the same front-end and oracle on a port of the real LiteDRAMCrossbar + LiteDRAMController with the reference DRAM on DFI, refresh running, DFI protocol events of the reference model added to the witnesses] case = (data width, buffer depths 2..16, base address, read-modify-write on/off, traffic class: full-width INCR / "
        "WRAP / FIXED / mixed / narrow sizes, independent stall profiles on AW, W, B, AR, R and on the native side, seed) with "
        "LiteDRAMAXI2Native on the pulsed core stub; oracle: beat addresses recomputed independently from (addr, len, size, "
        "burst); one B per AW, same ID, AW order, B.valid not before the memory side took the burst's last data beat; len+1 R "
        "beats per AR, LAST only on the final one, ID equal, AR order; per byte the read value must be the state after some "
        "prefix of the write-beat sequence between 'all writes whose B preceded the AR' and 'all beats transferred before the R "
        "beat' (set-valued for reads concurrent with un-acknowledged writes); final store == model; non-trivial iff >=1 WRAP "
        "burst wrapped, every channel was stalled mid-burst and >=1 read-after-B of a written address was judged; distinct = "
        "distinct (width, depths, rmw, class)")
ASSUMPTIONS = [
    "Migen simulator semantics; AXI4 beat address rules (A3.4.1) as transcribed in vfw/axistub.py",
    "abstract core stub never stricter than the real core",
    "no reordering is promised by the bridge, so write beats take effect in AW/W order",
]
MIN_NONTRIVIAL = {"quick": 10, "thorough": 40}
CLASSES = ["incr", "wrap", "mixed", "fixed", "narrow", "mixed"]


def cases(tier, seed):
    n = 180 if tier == "quick" else 1200
    out = []
    for k in range(n):
        r = random.Random("C09/%d/%s/%d" % (seed, tier, k))
        c = dict(dw=r.choice([32, 32, 64, 128, 256]), wdepth=r.choice([2, 4, 16, 16, 3, 8]), rdepth=r.choice([2, 4, 16, 16, 3, 8]), idw=r.choice([4, 4, 1, 8]),
                 base=r.choice([0, 0, 0x10000, 0x40000000, 0x400, 0x2000]), rmw=bool(k % 3 == 2), cls=CLASSES[k % len(CLASSES)],
                 nw=r.randint(8, 20), nr=r.randint(8, 20), ready_b=r.choice([1.0, 0.6, 0.2]), ready_r=r.choice([1.0, 0.6, 0.2]),
                 long_stall=r.choice([0, 0, 0.02]), gap=r.choice([0, 0, 3, 10]), cmd_ready_prob=r.choice([1.0, 0.7, 0.3]),
                 extra_lat=r.choice([(0, 0), (0, 8), (0, 30)]), stub_long=r.choice([0, 0, 0.01]), seed="C09/%d/%d" % (seed, k))
        c["aw_native"] = r.choice([12, 12, 25])        # 25: AXI addresses up to 2^30 bytes and beyond
        if c["rmw"] and k % 2 == 0:
            # read-modify-write mode with a master that has one single-beat write in flight at a time (W never ahead of AW,
            # next write only after the B of the previous one): the open RMW finding cannot be involved, any violation is new
            c["cls"], c["serial"] = "rmw-serial", True
        c["name"] = "%04d-w%d-d%d.%d-%s%s-%s" % (k, c["dw"], c["wdepth"], c["rdepth"], c["cls"], "-rmw" if c["rmw"] else "", hex(c["base"]))
        c["cost"] = (c["nw"] + c["nr"]) * 4
        out.append(c)
    # the bridge on a port of the real crossbar + controller + reference DRAM
    for k in range(12 if tier == "quick" else 90):
        r = random.Random("C09/%d/%s/core/%d" % (seed, tier, k))
        c = dict(core=True, dw=r.choice([32, 64]), wdepth=16, rdepth=r.choice([4, 16]), base=r.choice([0, 0x10000, 0x40000000, 0x2000]),
                 rmw=False, cls=CLASSES[k % len(CLASSES)], nw=r.randint(8, 14), nr=r.randint(8, 14), ready_b=r.choice([1.0, 0.6]),
                 ready_r=r.choice([1.0, 0.6, 0.2]), long_stall=0, gap=r.choice([0, 3, 10]), cmd_ready_prob=1.0, extra_lat=(0, 0),
                 stub_long=0, cmd_buffer_depth=r.choice([4, 8, 16]), refresh=(k % 6 != 5), seed="C09/%d/core/%d" % (seed, k))
        c["name"] = "core%03d-w%d-d%d.%d-%s-%s" % (k, c["dw"], c["wdepth"], c["rdepth"], c["cls"], hex(c["base"]))
        c["cost"] = (c["nw"] + c["nr"]) * 30
        out.append(c)
    return out


def gen_burst(r, c, nb, hot):
    """returns (addr, len, size, burst)"""
    from ..axistub import BURST_FIXED, BURST_INCR, BURST_WRAP
    full = nb.bit_length() - 1
    cls = c["cls"]
    kind = cls if cls != "mixed" else r.choice(["incr", "incr", "wrap", "fixed", "incr"])
    if cls == "rmw-serial":
        kind = r.choice(["incr", "narrow"])
    size = full
    if kind == "narrow":
        size = r.randrange(0, full + 1)
        kind2 = r.choice(["incr", "incr", "wrap"])
    else:
        kind2 = kind
    nbytes = 1 << size
    word = r.choice(hot) if r.random() < 0.7 else (r.randrange(0, 1 << 8) if r.random() < 0.5 else r.randrange(0, (1 << c.get("aw_native", 12)) - 64))
    if kind2 == "wrap":
        ln = r.choice([1, 3, 7, 15])
        addr = (word * nb // nbytes) * nbytes          # aligned to the transfer size
        burst = BURST_WRAP
    elif kind2 == "fixed":
        ln = r.randint(0, 3)
        addr = word * nb
        burst = BURST_FIXED
    else:
        ln = r.choice([0, 0, 1, 2, 3, 5, 7, 15, 15, 31, 63] if r.random() < 0.9 else [127, 255])
        if ln > 15:
            # AXI4 long INCR bursts: stay inside one 4 KiB page (protocol rule) and inside the port
            while (ln + 1) * nbytes > 4096:
                ln //= 2
            page = (word * nb) // 4096 * 4096
            room = 4096 - (ln + 1) * nbytes
            word = (page + (r.randrange(room // nb + 1) * nb if room > 0 else 0)) // nb
        addr = word * nb + (r.randrange(nb // nbytes) * nbytes if size < full and ln <= 15 else 0)
        burst = BURST_INCR
    if cls == "rmw-serial":
        ln, burst = 0, BURST_INCR
    return addr, ln, size, burst


def run_case(c):
    from .. import shim  # noqa
    from migen import Module
    from litedram.common import LiteDRAMNativePort
    from litedram.frontend.axi import LiteDRAMAXIPort, LiteDRAMAXI2Native
    from ..stub import CoreStub, Store
    from ..axistub import AXIMaster, beat_addresses, BURST_WRAP
    from ..core import run_sim
    r = random.Random(c["seed"])
    dw = c["dw"]
    nb = dw // 8
    sh = nb.bit_length() - 1
    aw_native = c.get("aw_native", 12)

    class DUT(Module):
        def __init__(self):
            self.axi = LiteDRAMAXIPort(data_width=dw, address_width=32, id_width=c.get("idw", 4))
            self.port = LiteDRAMNativePort("both", aw_native, dw)
            self.submodules.bridge = LiteDRAMAXI2Native(self.axi, self.port, w_buffer_depth=c["wdepth"], r_buffer_depth=c["rdepth"],
                                                        base_address=c["base"], with_read_modify_write=c["rmw"])

    if c.get("core"):
        from ..corebackend import CoreBackend
        stub = CoreBackend(1, databits=dw, refresh=c["refresh"], cmd_buffer_depth=c["cmd_buffer_depth"])
        dut = stub.dut
        dut.axi = LiteDRAMAXIPort(data_width=dw, address_width=32, id_width=c.get("idw", 4))
        dut.submodules.bridge = LiteDRAMAXI2Native(dut.axi, stub.ports[0], w_buffer_depth=c["wdepth"], r_buffer_depth=c["rdepth"],
                                                    base_address=c["base"], with_read_modify_write=c["rmw"])
        store = stub.store
        mem_procs = stub.processes()
    else:
        dut = DUT()
        store = Store(nb)
        stub = CoreStub([dut.port], store, r, cmd_ready_prob=c["cmd_ready_prob"], extra_lat=tuple(c["extra_lat"]), long_stall=c["stub_long"])
        mem_procs = [stub.process()]
    # hot words anywhere in the port's address range (every native address bit is exercised); bursts stay inside it
    hot = [r.randrange(0, (1 << aw_native) - 64) for _ in range(4)]
    full_strb = (1 << nb) - 1
    writes, reads = [], []
    wrapped = 0
    for k in range(c["nw"]):
        addr, ln, size, burst = gen_burst(r, c, nb, hot)
        baddrs = beat_addresses(addr, ln, size, burst)
        if burst == BURST_WRAP and any(baddrs[i + 1] < baddrs[i] for i in range(len(baddrs) - 1)):
            wrapped += 1
        beats = []
        for a in baddrs:
            lanes = 0
            lo = a % nb
            for i in range(lo - lo % (1 << size), lo - lo % (1 << size) + (1 << size)):
                if i >= lo or True:
                    lanes |= 1 << i
            # legal strobes: subset of the byte lanes of this transfer (unaligned first beat: lanes below addr stay off)
            legal = 0
            start = a % nb
            top = (start // (1 << size) + 1) * (1 << size)
            for i in range(start, top):
                legal |= 1 << i
            x = r.random()
            strb = legal if x < 0.6 else (legal & r.getrandbits(nb))
            beats.append((r.getrandbits(dw), strb))
        writes.append(dict(id=r.getrandbits(c.get("idw", 4)), addr=c["base"] + addr, len=ln, size=size, burst=burst, beats=beats,
                           gap_aw=r.randint(0, c["gap"]) if c["gap"] else 0, gaps_w=[r.choice([0, 0, 0, r.randint(1, 6)]) for _ in beats],
                           off=addr))
    for k in range(c["nr"]):
        if r.random() < 0.6 and writes:
            wi = r.randrange(len(writes))
            w = writes[wi]
            addr, ln, size, burst = w["off"], w["len"], w["size"], w["burst"]
            after = wi if r.random() < 0.7 else None
        else:
            addr, ln, size, burst = gen_burst(r, c, nb, hot)
            after = None
        baddrs = beat_addresses(addr, ln, size, burst)
        if burst == BURST_WRAP and any(baddrs[i + 1] < baddrs[i] for i in range(len(baddrs) - 1)):
            wrapped += 1
        reads.append(dict(id=r.getrandbits(c.get("idw", 4)), addr=c["base"] + addr, len=ln, size=size, burst=burst, after_b=after,
                          gap=r.randint(0, c["gap"]) if c["gap"] else 0, off=addr))
    reads.sort(key=lambda x: -1 if x["after_b"] is None else x["after_b"])
    m = AXIMaster(dut.axi, writes, reads, r, ready_b=c["ready_b"], ready_r=c["ready_r"], long_stall=c["long_stall"],
                  serial_writes=bool(c.get("serial")))
    m.scramble = r.random() < 0.5        # AW / W / AR payloads are don't-care while their valid is low
    state = {}
    total_r = sum(x["len"] + 1 for x in reads)

    def done_fn():
        cyc = m.cycle
        act = (len(m.aw_t), len(m.w_t), len(m.ar_t), len(m.b_log), len(m.r_log), stub.seq)
        if act != state.get("act"):
            state["act"], state["t"] = act, cyc
        if m.all_issued() and len(m.b_log) >= len(writes) and len(m.r_log) >= total_r and stub.outstanding() == 0:
            state.setdefault("t_fin", cyc)
            return cyc - state["t_fin"] > 80
        if cyc - state.get("t", 0) > 6000:
            state["hang"] = True
            return True
        return False

    cycles, reason = run_sim(dut, mem_procs + m.processes(), done_fn, 400000, wall_limit=900)
    if reason == "wall":
        return dict(verdict="inconclusive", why="wall-clock watchdog", violations=[], stats={}, nontrivial=False, signature="")
    v = list(stub.events) + list(m.protocol) + (stub.dfi_events() if c.get("core") else [])
    if state.get("hang") or reason == "cycle-cap":
        v.append(dict(kind="no-progress", aw=len(m.aw_t), of_aw=len(writes), w=len(m.w_t), b=len(m.b_log), ar=len(m.ar_t),
                      of_ar=len(reads), r=len(m.r_log), of_r=total_r, native_outstanding=stub.outstanding()))
    # ------------------------------------------------------------ write beats as a global sequence
    seq = []       # (byte addr -> value) updates per beat, in AW/W order
    beat_of = []   # (write index, beat index)
    for wi, w in enumerate(writes):
        for bi, (a, (d, s)) in enumerate(zip(beat_addresses(w["off"], w["len"], w["size"], w["burst"]), w["beats"])):
            wordbase = (a // nb) * nb
            upd = {}
            for i in range(nb):
                if (s >> i) & 1:
                    upd[wordbase + i] = (d >> (8 * i)) & 0xFF
            seq.append(upd)
            beat_of.append((wi, bi))
    first_beat = []
    acc = 0
    for w in writes:
        first_beat.append(acc)
        acc += w["len"] + 1
    # ------------------------------------------------------------ B channel
    nwr_native = [x for x in stub.wbeats[0]]
    if len(m.b_log) > len(writes):
        v.append(dict(kind="more-B-responses-than-AW", b=len(m.b_log), aw=len(writes)))
    for k, (t_b, bid, resp, t_first) in enumerate(m.b_log[:len(writes)]):
        w = writes[k]
        if bid != w["id"]:
            v.append(dict(kind="B-id-wrong-or-out-of-order", index=k, got=bid, expected=w["id"]))
            break
        if resp != 0:
            v.append(dict(kind="B-resp-not-okay", index=k, resp=resp))
        if not c["rmw"]:
            last_native = first_beat[k] + w["len"]
            if last_native < len(nwr_native):
                t_mem = nwr_native[last_native][0]
                # the stub samples its beat one cycle after the strobe was on the wire; B.valid must not be earlier
                if t_first is not None and t_first < t_mem - 1:
                    v.append(dict(kind="B-before-last-data-beat-reached-memory", index=k, b_valid_cycle=t_first, memory_took_last_beat=t_mem))
            else:
                v.append(dict(kind="B-for-burst-whose-data-never-reached-memory", index=k))
    if not v and len(m.b_log) != len(writes):
        v.append(dict(kind="missing-B-responses", b=len(m.b_log), aw=len(writes)))
    # ------------------------------------------------------------ R channel
    pos = 0
    raw_after_b = 0
    b_times = [x[0] for x in m.b_log]
    init = lambda ba: store.pattern(ba // nb, nb)[ba % nb]
    for k, rd in enumerate(reads):
        if k >= len(m.ar_t):
            break
        n = rd["len"] + 1
        beats = m.r_log[pos:pos + n]
        pos += n
        if len(beats) < n:
            if not v:
                v.append(dict(kind="read-burst-short", index=k, beats=len(beats), expected=n))
            break
        baddrs = beat_addresses(rd["off"], rd["len"], rd["size"], rd["burst"])
        t_ar = m.ar_t[k]
        # all writes whose B handshake preceded the AR handshake are complete
        nb_done = sum(1 for t in b_times if t < t_ar)
        m_min = first_beat[nb_done] if nb_done < len(writes) else len(seq)
        for bi, (t_r, rid, data, last, resp) in enumerate(beats):
            if rid != rd["id"]:
                v.append(dict(kind="R-id-wrong-or-out-of-order", read=k, beat=bi, got=rid, expected=rd["id"]))
                break
            if bool(last) != (bi == n - 1):
                v.append(dict(kind="R-last-misplaced", read=k, beat=bi, last=last, beats=n))
                break
            m_max = sum(1 for t in m.w_t if t < t_r)
            a = baddrs[bi]
            wordbase = (a // nb) * nb
            lo = a % nb
            lanes = range(lo - lo % (1 << rd["size"]), lo - lo % (1 << rd["size"]) + (1 << rd["size"]))
            for i in lanes:
                ba = wordbase + i
                got = (data >> (8 * i)) & 0xFF
                cur = init(ba)
                for u in seq[:m_min]:
                    if ba in u:
                        cur = u[ba]
                allowed = {cur}
                for u in seq[m_min:max(m_min, m_max)]:
                    if ba in u:
                        allowed.add(u[ba])
                if got not in allowed:
                    v.append(dict(kind="read-data-not-explained-by-any-legal-order", read=k, beat=bi, byte_addr=ba, got=got,
                                  allowed=sorted(allowed), writes_acknowledged_before_ar=nb_done, rmw=c["rmw"]))
                    break
            else:
                if rd["after_b"] is not None and len(set()) == 0:
                    raw_after_b += 1
                continue
            break
    if len(m.r_log) > total_r:
        v.append(dict(kind="more-R-beats-than-requested", got=len(m.r_log), expected=total_r))
    # ------------------------------------------------------------ final store
    if not state.get("hang") and len(m.b_log) == len(writes):
        final = {}
        for u in seq:
            final.update(u)
        bad = []
        for ba, val in final.items():
            if store.byte(ba) != val:
                bad.append(dict(byte_addr=ba, expected=val, got=store.byte(ba)))
        # bytes never strobed must keep their initial value
        for wa in list(store.mem.keys()):
            for i in range(nb):
                ba = wa * nb + i
                if ba not in final and store.byte(ba) != init(ba):
                    bad.append(dict(byte_addr=ba, expected=init(ba), got=store.byte(ba), never_written=True))
        if bad:
            v.append(dict(kind="final-store-differs-from-model", nbytes=len(bad), first=bad[:3], rmw=c["rmw"]))
    # ------------------------------------------------------------ finding split (measured, mechanism by mechanism)
    wcmd_t = [cyc for (cyc, we, a) in stub.accepted[0] if we]
    wdat_t = [x[0] for x in stub.wbeats[0]]
    events = []
    resp_events = []
    for k, w in enumerate(writes):
        fb, lb = first_beat[k], first_beat[k] + w["len"]
        if fb < len(wcmd_t):
            events.append((wcmd_t[fb], 1))
            if lb < len(wdat_t):
                events.append((wdat_t[lb], -1))
                resp_events.append((wdat_t[lb] - 1, 1))
        if k < len(m.b_log):
            resp_events.append((m.b_log[k][0], -1))
    def peak(ev):
        cur = mx = 0
        # a FIFO that is full refuses a push even when a pop happens in the same cycle: count pushes first (upper bound)
        for t, d in sorted(ev, key=lambda x: (x[0], -x[1])):
            cur += d
            mx = max(mx, cur)
        return mx
    bursts_in_flight = peak(events)
    responses_pending = peak(resp_events)
    w_ahead = False
    if c["rmw"]:
        j = 0
        for wi, w in enumerate(writes):
            for bi, (d, sb) in enumerate(w["beats"]):
                if j >= 1 and sb != full_strb and j < len(m.w_offer) and (j - 1 >= len(wcmd_t) or m.w_offer[j] <= wcmd_t[j - 1]):
                    w_ahead = True
                j += 1
    for x in v:
        x["peak_write_bursts_in_flight"] = bursts_in_flight
        x["peak_responses_pending"] = responses_pending
        x["w_buffer_depth"] = c["wdepth"]
        x["rmw"] = c["rmw"]
        x["partial_beat_on_bus_before_previous_beat_commanded"] = w_ahead
    st = dict(aw=len(m.aw_t), w=len(m.w_t), b=len(m.b_log), ar=len(m.ar_t), r=len(m.r_log), wrapped_bursts=wrapped, stalls=dict(m.stalls),
              peak_write_bursts_in_flight=bursts_in_flight, peak_responses_pending=responses_pending, rmw_w_ahead=w_ahead,
              read_after_b=raw_after_b, native_cmds=stub.seq, cycles=cycles)
    stalled_all = all(m.stalls[k] > 0 for k in ("aw", "w", "ar")) and (m.stalls["b"] > 0 or c["ready_b"] == 1.0) and \
        (m.stalls["r"] > 0 or c["ready_r"] == 1.0)
    nontrivial = stalled_all and raw_after_b >= 1 and (wrapped >= 1 or c["cls"] in ("incr", "fixed"))
    sig = "|".join(str(x) for x in (dw, c["wdepth"], c["rdepth"], c["rmw"], c["cls"], bool(c.get("core"))))
    return dict(verdict="violated" if v else "held", violations=v[:8], stats=st, nontrivial=bool(nontrivial) or bool(v), signature=sig)


def aggregate(results, cases):
    tot = dict(aw=0, w=0, b=0, ar=0, r=0, wrapped_bursts=0, read_after_b=0, native_cmds=0)
    stalls = dict(aw=0, w=0, ar=0, b=0, r=0)
    for r in results:
        st = r.get("stats") or {}
        for k in tot:
            tot[k] += st.get(k, 0) or 0
        for k in stalls:
            stalls[k] += (st.get("stalls") or {}).get(k, 0)
    by = {c["name"]: c for c in cases}
    samples = [dict(case=by.get(r["name"]), verdict=r["verdict"], stats=r.get("stats")) for r in results[:3]]
    return dict(observed=tot, channel_stall_cycles=stalls, samples=samples)


def summary(cov):
    o = cov["observed"]
    return "  observed: %d AW / %d W / %d B / %d AR / %d R handshakes, %d wrapping bursts, %d read-after-B judged, stalls %s" % (
        o["aw"], o["w"], o["b"], o["ar"], o["r"], o["wrapped_bursts"], o["read_after_b"], cov["channel_stall_cycles"])
