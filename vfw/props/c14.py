"""C14 -- BIST reports exactly the words that differ.  See DESIGN.md section 3/C14."""
import random

LEVEL = "fault_enumeration"
BATCH = 10
BATCH_TIMEOUT = 3000
RULE = ("case = (port type native/AXI, data width 8..128, base, power-of-two range, length <= or > range, random-data / "
        "random-address flags, memory timing profile, corruption set: none / one / few / many / first / last position, seed); "
        "the real generator core then the real checker core run on the same store (pulsed core stub, AXI slave stub, or two "
        "ports of the real crossbar + controller with the reference DRAM on DFI and refresh running), k "
        "stored words are corrupted in between; relational oracle over the two cores' own port logs: every generator write "
        "lies in [base, end), the checker reads the same address sequence, and errors at done == number of positions whose "
        "returned word differs from the word the generator wrote at that position (== k when no address repeats); both reach "
        "done within a bound; non-trivial iff >=16 positions and both cores reached done; distinct = distinct (port, width, "
        "flags, length class, corruption class)")
ASSUMPTIONS = [
    "Migen simulator semantics",
    "the generator's own write log defines position i -> (address, data): no re-implementation of the LFSR",
    "abstract core stub / AXI slave stub store faithfully (corruption is injected explicitly)",
]
MIN_NONTRIVIAL = {"quick": 12, "thorough": 40}
CORRUPT = ["none", "one", "few", "many", "first", "last"]


def cases(tier, seed):
    n = 160 if tier == "quick" else 1200
    out = []
    for k in range(n):
        r = random.Random("C14/%d/%s/%d" % (seed, tier, k))
        dw = r.choice([8, 16, 32, 32, 64, 128])
        wb = dw // 8
        range_words = r.choice([16, 32, 64, 128])
        long_run = (k % 5 == 4)
        length_words = r.randint(range_words + 1, 3 * range_words) if long_run else r.randint(8, range_words)
        if k % 13 == 12:
            length_words = r.choice([1, 2, 3, range_words])      # corner lengths: a single word ... exactly the range
        c = dict(port=["native", "native", "native", "axi"][k % 4], dw=dw,
                 base=(r.randrange(0, 64) + (r.choice([0, 0, 1 << 18]))) * range_words * wb,       # incl. bases with high address bits set
                 range_bytes=range_words * wb, length=length_words * wb, random_data=bool((k // 2) % 2),
                 random_addr=bool((k // 7) % 3 == 2), corrupt=CORRUPT[k % len(CORRUPT)],
                 cmd_ready_prob=r.choice([1.0, 0.7, 0.4]), extra_lat=r.choice([(0, 0), (0, 8), (0, 30)]),
                 long_stall=r.choice([0, 0, 0.01]), seed="C14/%d/%d" % (seed, k))
        c["name"] = "%04d-%s-w%d-%s%s%s-%s" % (k, c["port"], dw, "long" if long_run else "short", "-rd" if c["random_data"] else "",
                                               "-ra" if c["random_addr"] else "", c["corrupt"])
        if k % 7 == 3:
            c["recheck"] = True          # the checker runs twice over the same region
        if k % 5 == 2:
            # the run_cascade_in inputs (used to chain BIST units) pause generator and checker at random moments
            c["cascade"] = True
        if k % 3 == 1:
            # a second run on the same generator / checker instances with other parameters (LFSR / counter / address state
            # must restart; nothing of the first run may leak into the second)
            rw2 = r.choice([16, 32, 64])
            c["second"] = dict(base=r.randrange(0, 64) * rw2 * wb, range_bytes=rw2 * wb, length=r.randint(4, rw2) * wb,
                               random_data=bool(r.getrandbits(1)), random_addr=False, corrupt=r.choice(["none", "one", "few"]))
            c["name"] += "-2runs"
        if c.get("cascade"):
            c["name"] += "-pause"
        if c.get("recheck"):
            c["name"] += "-recheck"
        c["cost"] = length_words
        out.append(c)
    # the same two cores on two ports of the real crossbar + controller + reference DRAM (rows, banks, refresh in the way)
    for k in range(12 if tier == "quick" else 96):
        r = random.Random("C14/%d/%s/core/%d" % (seed, tier, k))
        dw = r.choice([16, 32, 64])
        wb = dw // 8
        range_words = r.choice([64, 128, 256])
        long_run = (k % 4 == 3)
        length_words = r.randint(range_words + 1, 2 * range_words) if long_run else r.randint(range_words // 2, range_words)
        c = dict(port="core", dw=dw, base=r.randrange(0, 64) * range_words * wb, range_bytes=range_words * wb,
                 length=length_words * wb, random_data=bool(k % 2), random_addr=bool((k // 2) % 3 == 2),
                 corrupt=CORRUPT[k % len(CORRUPT)], cmd_buffer_depth=r.choice([4, 8, 16]), refresh=(k % 6 != 5),
                 seed="C14/%d/core/%d" % (seed, k))
        c["name"] = "core%03d-w%d-%s%s%s-%s" % (k, dw, "long" if long_run else "short", "-rd" if c["random_data"] else "",
                                                "-ra" if c["random_addr"] else "", c["corrupt"])
        c["cost"] = length_words * 8
        out.append(c)
    return out


def run_case(c):
    from .. import shim  # noqa
    from migen import Module
    from litedram.common import LiteDRAMNativePort
    from litedram.frontend.bist import _LiteDRAMBISTGenerator, _LiteDRAMBISTChecker
    from ..stub import CoreStub, Store
    from ..core import run_sim
    r = random.Random(c["seed"])
    dw = c["dw"]
    wb = dw // 8
    ashift = wb.bit_length() - 1
    aw = 27 if c["base"] >= (1 << 16) else 16        # the port must hold base + range (bases with high bits need a large port)
    backend = None
    if c["port"] == "core":
        from ..corebackend import CoreBackend
        backend = CoreBackend(2, databits=dw, refresh=c["refresh"], cmd_buffer_depth=c["cmd_buffer_depth"])
        pw, pr = backend.ports
    elif c["port"] == "native":
        pw, pr = LiteDRAMNativePort("both", aw, dw), LiteDRAMNativePort("both", aw, dw)
    else:
        from litedram.frontend.axi import LiteDRAMAXIPort
        pw = LiteDRAMAXIPort(data_width=dw, address_width=aw + ashift, id_width=2)
        pr = LiteDRAMAXIPort(data_width=dw, address_width=aw + ashift, id_width=2)

    class DUT(Module):
        def __init__(self):
            self.submodules.gen = _LiteDRAMBISTGenerator(pw)
            self.submodules.chk = _LiteDRAMBISTChecker(pr)

    if backend is not None:
        dut = backend.dut
        dut.submodules.gen = _LiteDRAMBISTGenerator(pw)
        dut.submodules.chk = _LiteDRAMBISTChecker(pr)
        store = backend.store
        procs = backend.processes()
        events = backend.events

        def gen_writes():
            return [(a, d) for (_, a, d, we, valid) in backend.wbeats[0] if valid]

        def chk_reads():
            return [(a, d) for (_, a, d, taken) in backend.rbeats[1]]
    else:
        dut = DUT()
        store = Store(wb)
    if backend is not None:
        pass
    elif c["port"] == "native":
        stub = CoreStub([pw, pr], store, r, cmd_ready_prob=c["cmd_ready_prob"], extra_lat=tuple(c["extra_lat"]),
                        long_stall=c["long_stall"], max_outstanding=40)
        procs = [stub.process()]
        events = stub.events

        def gen_writes():
            return [(a, d) for (_, a, d, we, valid) in stub.wbeats[0] if valid]

        def chk_reads():
            return [(a, d) for (_, a, d, taken) in stub.rbeats[1]]
    else:
        from ..axistub import AXISlaveStub
        s1 = AXISlaveStub(pw, store, r, ready_prob=c["cmd_ready_prob"], extra_lat=tuple(c["extra_lat"]))
        s2 = AXISlaveStub(pr, store, r, ready_prob=c["cmd_ready_prob"], extra_lat=tuple(c["extra_lat"]))
        procs = s1.processes() + s2.processes()
        events = s1.events + s2.events

        def gen_writes():
            return [(a, d) for (a, d, s) in s1.wseq]

        def chk_reads():
            return list(s2.rseq)
    rounds = [dict(base=c["base"], range_bytes=c["range_bytes"], length=c["length"], random_data=c["random_data"],
                   random_addr=c["random_addr"], corrupt=c["corrupt"])] + ([c["second"]] if c.get("second") else [])
    results_per_round = []
    state = dict(done=False)
    bound = 400 + max(q["length"] for q in rounds) // wb * 120
    cur = {}

    def run_core(core):
        q = cur["q"]
        yield [core.base.eq(q["base"]), core.end.eq(q["base"] + q["range_bytes"]), core.length.eq(q["length"]),
               core.random_data.eq(int(q["random_data"])), core.random_addr.eq(int(q["random_addr"]))]
        yield
        if cur.get("used", {}).get(id(core)):
            # DONE is terminal: like the CSR wrappers, pulse the core's reset before a new run
            yield core.reset.eq(1)
            yield
            yield core.reset.eq(0)
            yield
        cur.setdefault("used", {})[id(core)] = True
        yield core.start.eq(1)
        yield
        yield core.start.eq(0)
        yield
        for _ in range(bound):
            if (yield core.done):
                return True
            yield
        return False

    def main():
        for _ in range(3):
            yield
        for q in rounds:
            cur["q"] = q
            res = dict(v=[], errors=None, gen_done=False, chk_done=False, corrupted=[], g0=len(gen_writes()), c0=len(chk_reads()), q=q)
            results_per_round.append(res)
            yield from one_round(q, res)
            res["g1"], res["c1"] = len(gen_writes()), len(chk_reads())
            if not (res["gen_done"] and res["chk_done"]):
                break
            for _ in range(r.randint(2, 40)):
                yield
        state["done"] = True

    def one_round(q, res):
        npos = q["length"] // wb
        ok = yield from run_core(dut.gen)
        res["gen_done"] = ok
        if not ok:
            res["v"].append(dict(kind="generator-not-done-within-bound", bound=bound, writes=len(gen_writes()) - res["g0"], positions=npos))
            return
        for _ in range(60):
            yield
        # ---- corrupt k stored words (distinct addresses the generator wrote)
        gw = gen_writes()[res["g0"]:]
        addrs = []
        for (a, d) in gw:
            if a not in addrs:
                addrs.append(a)
        kind = q["corrupt"]
        k = {"none": 0, "one": 1, "few": min(3, len(addrs)), "many": max(1, len(addrs) // 2), "first": 1, "last": 1}[kind]
        if kind == "first":
            pick = addrs[:1]
        elif kind == "last":
            pick = addrs[-1:]
        else:
            pick = r.sample(addrs, k) if k else []
        for a in pick:
            w = store.get(a)
            # one flipped bit per corrupted word; the position is biased to the ends of the word and to the seams of the
            # 31-bit generator words replicated across a wide port (where a lane-wise compare could lose bits)
            x = r.random()
            nbits = 8 * wb
            if x < 0.3:
                bit = nbits - 1 - r.randrange(min(nbits, max(1, nbits % 31 or 1)))
            elif x < 0.45:
                bit = min(nbits - 1, 31 * r.randrange(1, nbits // 31 + 1) - r.randrange(2)) if nbits >= 31 else r.randrange(nbits)
            elif x < 0.55:
                bit = 0
            else:
                bit = r.randrange(nbits)
            w[bit // 8] ^= 1 << (bit % 8)
        res["corrupted"] = pick
        ok = yield from run_core(dut.chk)
        res["chk_done"] = ok
        if not ok:
            res["v"].append(dict(kind="checker-not-done-within-bound", bound=bound, reads=len(chk_reads()) - res["c0"], positions=npos))
        res["errors"] = yield dut.chk.errors
        for _ in range(20):
            yield
        if ok and c.get("recheck"):
            # the same region checked a second time by the same checker instance (its history now differs from the
            # generator's): the count must be the same again
            res["c_mid"] = len(chk_reads())
            ok2 = yield from run_core(dut.chk)
            res["errors2"] = yield dut.chk.errors
            if not ok2:
                res["v"].append(dict(kind="checker-not-done-within-bound", bound=bound, second_check=True, positions=npos))
            for _ in range(20):
                yield

    def pauser():
        yield "passive"
        rr = random.Random(c["seed"] + "/pause")
        while True:
            for core in (dut.gen, dut.chk):
                yield core.run_cascade_in.eq(1 if rr.random() < 0.6 else 0)
            for _ in range(rr.choice([1, 1, 2, 5, 12])):
                yield

    if c.get("cascade"):
        procs = procs + [pauser()]
        bound *= 3
    cycles, reason = run_sim(dut, procs + [main()], lambda: state["done"], len(rounds) * (2 * bound + 2000), wall_limit=900)
    if reason == "wall":
        return dict(verdict="inconclusive", why="wall-clock watchdog", violations=[], stats={}, nontrivial=False, signature="")
    v = list(events) + (backend.dfi_events() if backend is not None else [])
    if reason == "cycle-cap" and not v and not any(x["v"] for x in results_per_round):
        v.append(dict(kind="no-progress"))
    tot = dict(positions=0, gen_writes=0, chk_reads=0, corrupted=0, errors=0, repeats=0)
    for ri, res in enumerate(results_per_round):
        vr = judge_round(c, res, gen_writes()[res["g0"]:res.get("g1")], chk_reads()[res["c0"]:res.get("c_mid", res.get("c1"))], wb, ashift)
        if res.get("c_mid") is not None and res.get("errors2") is not None:
            gw_, cr2 = gen_writes()[res["g0"]:res.get("g1")], chk_reads()[res["c_mid"]:res.get("c1")]
            if [a for a, d in cr2] != [a for a, d in gw_]:
                vr.append(dict(kind="checker-address-sequence-differs", second_check=True, generator=[a for a, d in gw_][:3], checker=[a for a, d in cr2][:3]))
            else:
                exp2 = sum(1 for (g, c_) in zip(gw_, cr2) if g[1] != c_[1])
                if res["errors2"] != exp2:
                    vr.append(dict(kind="error-count-wrong", second_check=True, reported=res["errors2"], positions_that_differ=exp2,
                                   first_check_reported=res["errors"]))
        for x in vr:
            x["run"] = ri + 1
            x["runs_on_this_instance"] = len(rounds)
        v += vr
        tot["positions"] += res["q"]["length"] // wb
        tot["gen_writes"] += res.get("g1", res["g0"]) - res["g0"]
        tot["chk_reads"] += res.get("c1", res["c0"]) - res["c0"]
        tot["corrupted"] += len(res["corrupted"])
        tot["errors"] += res["errors"] or 0
    res0 = results_per_round[0] if results_per_round else dict(gen_done=False, chk_done=False)
    st = dict(tot, cycles=cycles, gen_done=all(x["gen_done"] for x in results_per_round), chk_done=all(x["chk_done"] for x in results_per_round),
              runs=len(results_per_round), repeats=sum(x.get("repeats", 0) for x in results_per_round))
    nontrivial = tot["positions"] >= 16 and st["gen_done"] and st["chk_done"] and len(results_per_round) == len(rounds)
    sig = "|".join(str(x) for x in (c["port"], dw, c["random_data"], c["random_addr"], c["length"] > c["range_bytes"], c["corrupt"], len(rounds)))
    return dict(verdict="violated" if v else "held", violations=v[:8], stats=st, nontrivial=bool(nontrivial) or bool(v), signature=sig)


def judge_round(c, res, gw, cr, wb, ashift):
    q = res["q"]
    v = list(res["v"])
    base, end = q["base"], q["base"] + q["range_bytes"]
    npos = q["length"] // wb
    bw, ew = base >> ashift, end >> ashift
    # (1) writes inside [base, end)
    outside = [(i, a) for i, (a, d) in enumerate(gw) if not (bw <= a < ew)]
    if outside:
        i, a = outside[0]
        v.append(dict(kind="generator-write-outside-range", position=i, word_addr=a, base_word=bw, end_word=ew,
                      offset_words=a - bw, range_bytes=q["range_bytes"], word_bytes=wb, n_outside=len(outside),
                      random_addr=q["random_addr"], length_words=npos))
    if res["gen_done"] and len(gw) != npos:
        v.append(dict(kind="generator-wrote-wrong-number-of-words", written=len(gw), length_words=npos))
    if res["chk_done"]:
        if len(cr) != npos:
            v.append(dict(kind="checker-read-wrong-number-of-words", read=len(cr), length_words=npos))
        # (2) same address sequence
        ga = [a for (a, d) in gw]
        ca = [a for (a, d) in cr]
        if ga != ca:
            i = next((j for j in range(min(len(ga), len(ca))) if ga[j] != ca[j]), min(len(ga), len(ca)))
            v.append(dict(kind="checker-address-sequence-differs", position=i, generator=ga[i:i + 3], checker=ca[i:i + 3]))
        else:
            # (3) error count == number of positions whose returned word differs from the generated word
            exp = sum(1 for (g, c_) in zip(gw, cr) if g[1] != c_[1])
            if res["errors"] != exp:
                v.append(dict(kind="error-count-wrong", reported=res["errors"], positions_that_differ=exp,
                              corrupted_words=len(res["corrupted"]), repeats=len(ga) - len(set(ga))))
            if len(set(ga)) == len(ga) and exp != len(res["corrupted"]):
                v.append(dict(kind="harness-inconsistency", differing=exp, corrupted=len(res["corrupted"])))
    res["repeats"] = len(gw) - len(set(a for a, d in gw))
    return v


def aggregate(results, cases):
    tot = dict(positions=0, gen_writes=0, chk_reads=0, corrupted=0, errors=0, repeats=0)
    for r in results:
        for k in tot:
            tot[k] += (r.get("stats") or {}).get(k, 0) or 0
    by = {c["name"]: c for c in cases}
    samples = [dict(case=by.get(r["name"]), verdict=r["verdict"], stats=r.get("stats")) for r in results[:3]]
    return dict(observed=tot, samples=samples)


def summary(cov):
    o = cov["observed"]
    return "  observed: %d positions, %d generator writes, %d checker reads, %d words corrupted, %d errors reported, %d repeated addresses" % (
        o["positions"], o["gen_writes"], o["chk_reads"], o["corrupted"], o["errors"], o["repeats"])
