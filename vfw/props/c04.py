"""C04 -- refresh is never starved and keeps the datasheet rate.  See DESIGN.md section 3/C04."""
import math
import random
from fractions import Fraction

from .. import corecfg

LEVEL = "exploration"
BATCH = 1
BATCH_TIMEOUT = 3000
RULE = ("two families: 'service' = saturating / single-bank / all-write / all-read / idle traffic with only the refresh "
        "interval shortened, 'rate' = unaltered datasheet tREFI at a clock where tREFI/Tclk is just above a small integer and "
        "the run is long enough for a one-cycle-per-interval drift to exceed the service latency L; oracle: k-th REF no later "
        "than (k+P)*tREFI + L, each REF preceded by a precharge-all >= tRP earlier with no ACT in between, traffic completes "
        "something between refresh bursts while masters offer, ZQCS recurs; non-trivial iff >=10 REF were judged (rate "
        "cases: additionally n*frac > L so a drift would have been visible); distinct = distinct (family, config, class, P)")
ASSUMPTIONS = [
    "Migen simulator semantics",
    "bounded restatement of 'never starved': L = P*(tRP+tRFC) + tZQCS + 2*(tRC+tRCD+tRP+WL+tWR+tCCD) + nbanks*(tRRD+2) + tFAW "
    "+ read_latency + tWTR + 16 controller cycles",
    "service family: the nominal interval is the (shortened) interval handed to the controller; rate family: the datasheet value",
]
MIN_NONTRIVIAL = {"quick": 8, "thorough": 40}
SERVICE_CLASSES = [("streams", None), ("hammer-same-row", None), ("mixed", ["writer"]), ("mixed", ["reader"]), ("idle", None),
                   ("cold-rows", None), ("row-conflict", None), ("bank-sweep", None), ("one-bank-row-miss", ["reader"]),
                   ("one-bank-row-miss", ["writer"]), ("one-bank-row-miss", None)]

# rate points: (module, rate, speedgrade, fine refresh mode, target integer cycles)
RATE_POINTS = [
    ("MT48LC4M16", "1:1", None, None, 101), ("MT47H64M16", "1:2", None, None, 103), ("MT41K128M16", "1:4", None, None, 105),
    ("MT40A1G8", "1:4", None, "4x", 102), ("IS42S16160", "1:1", None, None, 107), ("MT46V32M16", "1:2", None, None, 109),
    ("MT40A256M16", "1:4", None, "2x", 104), ("MT47H32M16", "1:2", None, None, 111),     # (not K4B1G0446F: its tRFC is a clock count, 120 cycles at 1:2 -- longer than the interval at these clocks)
]


def service_latency(timing, phy, nbanks_total, P):
    tz = timing.tZQCS or 0
    trc = timing.tRC or ((timing.tRAS or 0) + timing.tRP)
    wl = math.ceil((phy.cwl or phy.cl) / phy.nphases)
    return (P * (timing.tRP + timing.tRFC) + tz + 2 * (trc + timing.tRCD + timing.tRP + wl + timing.tWR + (timing.tCCD or 0))
            + nbanks_total * ((timing.tRRD or 0) + 2) + (timing.tFAW or 0) + phy.read_latency + (timing.tWTR or 0) + 16)


def cases(tier, seed):
    out = []
    n_service = 40 if tier == "quick" else 320
    fams = ["SDR1", "DDR2x", "SDR2", "DDR3x4", "LPDDR", "DDR3x2", "SDR1", "DDR4x4"]
    for k in range(n_service):
        r = random.Random("C04/%d/%s/%d" % (seed, tier, k))
        if k % 8 == 7:
            mem = dict(corecfg.MODULE_MEMS[(k // 8) % 8])
        else:
            mem = corecfg.synth_mem(r, fams[k % len(fams)])
        cs = corecfg.rand_cs(r, refresh=True)
        cs["refresh_postponing"] = r.choice([1, 1, 2, 4, 8, 3, 5, 6, 7])
        nports = r.choice([1, 2, 3, 4])
        cls, roles = SERVICE_CLASSES[k % len(SERVICE_CLASSES)]
        zq = False
        if r.random() < 0.3 and mem["kind"] == "synthetic":
            mem["timing"]["tZQCS"] = r.randint(3, 9)
            cs["refresh_zqcs_freq"] = 100e6 / r.randint(400, 700)
            zq = True
        wl = {"class": cls, "nops": 100000, "master_mode": "fifo", "hot_rows": 3, "hot_cols": 2, "wr_frac": 0.5,
              "victim_ops": 100000, "gap_scale": 0.3}
        if cls == "one-bank-row-miss":
            # saturating single-bank traffic in which every access opens another row
            wl.update({"class": "cold-rows", "hot_banks": 1, "gap_scale": 0.0, "dense": True})
        if cls in ("one-bank-row-miss", "row-conflict", "cold-rows") and mem["kind"] == "synthetic":
            tras = r.randint(4, 9)
            mem["timing"].update(tRAS=tras, tRC=tras + mem["timing"]["tRP"])
        if roles:
            wl["port_roles"] = roles
        if cls == "idle":
            wl["nops"] = 60
        cyc = 2200 if tier == "quick" else 3500
        cfg = dict(mem=mem, cs=cs, nports=nports, workload=wl, seed="C04/%d/%d" % (seed, k), family="service",
                   trefi_override=r.randint(100, 140), max_cycles=cyc + 3000, stop_offering_at=cyc, sweep=False, zq=zq)
        cfg["name"] = "s%03d-%s-%s%s-p%d-P%d" % (k, mem.get("family", mem.get("cls")), cls, "-" + roles[0] if roles else "",
                                                 nports, cs["refresh_postponing"])
        cfg["cost"] = corecfg.cost_of(mem, nports, cyc)
        out.append(cfg)
    npts = 3 if tier == "quick" else len(RATE_POINTS)
    pts = RATE_POINTS[seed % len(RATE_POINTS):] + RATE_POINTS[:seed % len(RATE_POINTS)]
    for k, (cls, rate, sg, frm, target) in enumerate(pts[:npts]):
        mem = dict(kind="module", cls=cls, rate=rate, speedgrade=sg, fine_refresh_mode=frm, target_cycles=target)
        cs = dict(cmd_buffer_depth=4, refresh_postponing=1, with_refresh=True)
        wl = {"class": "idle", "nops": 40, "master_mode": "fifo", "hot_rows": 2, "hot_cols": 2, "wr_frac": 0.5}
        cfg = dict(mem=mem, cs=cs, nports=1, workload=wl, seed="C04/rate/%d/%d" % (seed, k), family="rate",
                   trefi_override=None, max_cycles=60000, sweep=False)
        cfg["name"] = "r%02d-%s-%s-%s" % (k, cls, rate.replace(":", "to"), frm)
        cfg["cost"] = 1000
        out.append(cfg)
    # the same rate oracle at a *realistic* controller clock: the interval is then several hundred to a few thousand cycles
    # (timer and counter widths, reload arithmetic); 45 intervals, so that a period that is 0.4 % too long exceeds L
    long_pts = [("IS42S16160", "1:1", 100e6), ("MT48LC4M16", "1:1", 133e6), ("MT46V32M16", "1:2", 100e6), ("IS42S16160", "1:1", 166e6)]
    for k, (cls, rate, clk) in enumerate(long_pts[seed % 4:] + long_pts[:seed % 4]):
        if k >= (1 if tier == "quick" else 4):
            break
        mem = dict(kind="module", cls=cls, rate=rate, speedgrade=None, fine_refresh_mode=None, clk_freq=clk)
        cs = dict(cmd_buffer_depth=4, refresh_postponing=1, with_refresh=True)
        wl = {"class": "idle", "nops": 100000, "master_mode": "fifo", "hot_rows": 2, "hot_cols": 2, "wr_frac": 0.5}
        cfg = dict(mem=mem, cs=cs, nports=1, workload=wl, seed="C04/ratelong/%d/%d" % (seed, k), family="rate-long",
                   trefi_override=None, max_cycles=100000, sweep=False)
        cfg["name"] = "R%02d-%s-%s-%dMHz" % (k, cls, rate.replace(":", "to"), round(clk / 1e6))
        cfg["cost"] = 2000
        out.append(cfg)
    return out


def rate_clock(cls_name, rate, sg, frm, target):
    """clock at which datasheet tREFI / Tclk = target + 0.1"""
    from litedram import modules as M
    cls = getattr(M, cls_name)
    kw = {}
    if frm:
        kw["fine_refresh_mode"] = frm
    m = cls(100e6, rate, **kw)
    frm_eff = getattr(m.timing_settings, "fine_refresh_mode", None)
    trefi = m.get("tREFI", frm_eff)
    ns = Fraction(trefi.ns)
    f = (Fraction(target) + Fraction(1, 10)) / ns * 10 ** 9
    return float(f), ns


def run_case(cfg):
    from .. import wholecore as W
    fam = cfg["family"]
    if fam == "rate":
        m = cfg["mem"]
        clk, trefi_ns = rate_clock(m["cls"], m["rate"], m.get("speedgrade"), m.get("fine_refresh_mode"), m["target_cycles"])
        m["clk_freq"] = clk
        # run length: enough intervals for a 0.9-cycle-per-interval drift to exceed L by a margin
        phy, geom, timing, _, module = W.build_settings(m)
        L = service_latency(timing, phy, phy.nranks << geom.bankbits, 1)
        n_int = int((m["target_cycles"] + L) / 0.85) + 25
        cfg["max_cycles"] = min(60000, n_int * (m["target_cycles"] + 1) + 500)
        cfg["stop_offering_at"] = cfg["max_cycles"] - 400
        cfg["workload"]["nops"] = 100000
    if fam == "rate-long":
        phy, geom, timing, _, module = W.build_settings(cfg["mem"])
        cfg["max_cycles"] = 45 * (timing.tREFI + 1) + 500
        cfg["stop_offering_at"] = cfg["max_cycles"] - 400
        cfg["wall_limit"] = 2400
    tr = W.run_case(cfg)
    if tr.reason == "wall":
        return dict(verdict="inconclusive", why="wall-clock watchdog", violations=[], stats={}, nontrivial=False, signature="")
    if fam == "rate-long":
        fam = "rate"
    timing, phy = tr.timing, tr.phy
    P = cfg["cs"].get("refresh_postponing", 1)
    L = service_latency(timing, phy, tr.nbanks_total, P)
    v = []
    # one entry per REF *slot* (all ranks are refreshed in the same slot)
    refs = sorted(set(c[1] for c in tr.ref.cmds if c[4] == "REF" and c[3] == 0))
    zqs = sorted(set(c[1] for c in tr.ref.cmds if c[4] == "ZQC" and c[3] == 0))
    if fam == "rate":
        Tclk = Fraction(10 ** 9) / Fraction(tr.clk_freq)
        frm = getattr(tr.module.timing_settings, "fine_refresh_mode", None)
        interval = Fraction(tr.module.get("tREFI", frm).ns) / Tclk   # datasheet interval in controller cycles (exact)
    else:
        interval = Fraction(timing.tREFI)
    worst = None
    for k, t in enumerate(refs, start=1):
        deadline = (k + P) * interval + L
        slack = float(deadline - t)
        if worst is None or slack < worst:
            worst = slack
        if t > deadline:
            v.append(dict(kind="refresh-deadline-missed", k=k, t_cycle=t, deadline_cycle=float(deadline), P=P, L=L,
                          interval_cycles=float(interval), interval_given_to_controller=timing.tREFI))
            break
    # long-run rate (rate families, idle ports): every refresh is issued between its due time and L cycles later, so the mean
    # spacing of n refreshes can exceed the datasheet interval by at most L/(n-1)
    if fam == "rate" and len(refs) >= 12 and not v:
        n = len(refs)
        mean = Fraction(refs[-1] - refs[0], n - 1)
        if mean > interval + Fraction(L, n - 1):
            v.append(dict(kind="refresh-rate-below-datasheet", refreshes=n, mean_spacing_cycles=float(mean), datasheet_interval_cycles=float(interval),
                          allowed_mean=float(interval + Fraction(L, n - 1)), L=L, interval_given_to_controller=timing.tREFI))
    # the horizon itself: refreshes that should already have happened by the end of the run
    horizon = tr.cycles
    owed = math.floor((horizon - L) / interval) - P
    if len(refs) < owed:
        v.append(dict(kind="refreshes-owed-at-end-of-run", seen=len(refs), required_by_now=owed, horizon=horizon,
                      interval_cycles=float(interval), L=L, P=P))
    # sequencing: PREA >= tRP before each REF, no ACT in between
    last_prea = {}
    act_since = {}
    seq_ok = 0
    for c in sorted(tr.ref.cmds, key=lambda c: c[0]):
        t, cyc, ph, rank, name, bank, addr, a10 = c
        if name == "PRE" and a10:
            last_prea[rank] = cyc
            act_since[rank] = False
        elif name == "ACT":
            act_since[rank] = True
        elif name in ("REF", "ZQC"):
            if rank not in last_prea:
                v.append(dict(kind="%s-without-precharge-all" % name.lower(), cycle=cyc, rank=rank))
            elif act_since.get(rank):
                v.append(dict(kind="activate-between-precharge-all-and-%s" % name.lower(), cycle=cyc, rank=rank,
                              prea=last_prea[rank]))
            elif cyc - last_prea[rank] < timing.tRP:
                v.append(dict(kind="%s-too-soon-after-precharge-all" % name.lower(), cycle=cyc, prea=last_prea[rank],
                              tRP=timing.tRP))
            else:
                seq_ok += 1
    # traffic resumes: between consecutive refresh bursts some port handshake completes while masters offer
    bursts = []
    for t in refs:
        if bursts and t - bursts[-1][1] <= timing.tRP + timing.tRFC + 4:
            bursts[-1][1] = t
        else:
            bursts.append([t, t])
    events = sorted([o.accept for m in tr.masters for o in m.accepted] +
                    [o.done for m in tr.masters for o in m.accepted if o.done is not None])
    import bisect
    stop_at = cfg.get("stop_offering_at") or tr.cycles
    resumed = 0
    if cfg["workload"]["class"] != "idle" and fam == "service":
        for i in range(len(bursts) - 1):
            a = bursts[i][1] + timing.tRFC
            b = bursts[i + 1][0] - timing.tRP
            if b >= stop_at or b - a < 20:
                continue
            lo = bisect.bisect_left(events, a)
            if lo < len(events) and events[lo] <= b:
                resumed += 1
            else:
                v.append(dict(kind="no-traffic-between-refresh-bursts", after_ref_cycle=bursts[i][1], next_ref_cycle=bursts[i + 1][0]))
                break
    # ZQCS recurrence
    zq_period = None
    if cfg.get("zq"):
        zq_period = int(tr.clk_freq / cfg["cs"]["refresh_zqcs_freq"])
        allowed = zq_period + P * timing.tREFI + L + timing.tZQCS
        prev = 0
        for t in zqs + [None]:
            if t is None:
                if tr.cycles - prev > allowed:
                    v.append(dict(kind="zqcs-overdue-at-end-of-run", last=prev, horizon=tr.cycles, allowed=allowed))
                break
            if t - prev > allowed:
                v.append(dict(kind="zqcs-period-exceeded", prev=prev, t=t, allowed=allowed))
                break
            prev = t
    st = dict(refs=len(refs), zqcs=len(zqs), worst_deadline_slack_cycles=worst, L=L, P=P, interval_cycles=float(interval),
              interval_given_to_controller=timing.tREFI, sequences_ok=seq_ok, refresh_bursts=len(bursts), resumed=resumed,
              cycles=tr.cycles, accepted=sum(len(m.accepted) for m in tr.masters), clk_freq=tr.clk_freq)
    nontrivial = len(refs) >= 10
    if cfg["family"] == "rate-long":
        nontrivial = len(refs) >= 30
    if fam == "rate" and cfg["family"] != "rate-long":
        frac = 1 - float(interval - math.floor(interval))
        st["drift_budget_cycles"] = len(refs) * frac
        nontrivial = nontrivial and len(refs) * frac > L + float(interval)
    if cfg.get("zq") and len(zqs) < 1:
        nontrivial = False
    mem = cfg["mem"]
    sig = "|".join(str(x) for x in (fam, mem.get("family", mem.get("cls")), cfg["workload"]["class"],
                                    tuple(cfg["workload"].get("port_roles") or ()), P, bool(cfg.get("zq"))))
    st["history_sample"] = (W_ if "W_" in dir() else W).trace_sample(tr)
    return dict(verdict="violated" if v else "held", violations=v[:8], stats=st, nontrivial=nontrivial, signature=sig)


def aggregate(results, cases):
    refs = sum((r.get("stats") or {}).get("refs", 0) or 0 for r in results)
    zq = sum((r.get("stats") or {}).get("zqcs", 0) or 0 for r in results)
    seq = sum((r.get("stats") or {}).get("sequences_ok", 0) or 0 for r in results)
    res = sum((r.get("stats") or {}).get("resumed", 0) or 0 for r in results)
    slacks = [(r.get("stats") or {}).get("worst_deadline_slack_cycles") for r in results]
    slacks = [s for s in slacks if s is not None]
    rate = [dict(case=r["name"], stats=r.get("stats")) for r in results if r["name"].startswith("r")]
    samples = [dict(case=r["name"], verdict=r["verdict"], stats=r.get("stats")) for r in results[:2]] + rate[:2]
    return dict(refresh_commands_judged=refs, zqcs_seen=zq, prea_ref_sequences_ok=seq, refresh_gaps_with_traffic=res,
                min_deadline_slack_cycles=min(slacks) if slacks else None, rate_cases=rate, samples=samples)


def summary(cov):
    return "  observed: %d REF judged, %d ZQCS, %d PREA->REF sequences, %d refresh gaps with traffic, min deadline slack %s cycles" % (
        cov["refresh_commands_judged"], cov["zqcs_seen"], cov["prea_ref_sequences_ok"], cov["refresh_gaps_with_traffic"],
        cov["min_deadline_slack_cycles"])
