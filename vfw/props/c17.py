"""C17 -- generated initialisation programs the DRAM consistently with the controller (runtime contracts).

icontract post-conditions wrapped (from the harness) around the real litedram.init.get_sdram_phy_init_sequence,
get_sdram_phy_c_header and get_sdram_phy_py_header; independent JEDEC decoders (vfw/jedec.py) turn the emitted MRS
operands back into BL / CL / CWL / WR; a configuration sweep drives the functions."""
import math
import random
import re
from fractions import Fraction

LEVEL = "exploration"
BATCH = 6
BATCH_TIMEOUT = 3000
RULE = ("case = (memory type, module/speedgrade, rate, controller clock -> CL/CWL selected as the PHYs do, electrical options, "
        "RDIMM / clam-shell variant); every call of the real generator evaluates the post-condition: decoded BL = controller "
        "burst length, CL/CWL = phy settings, WR*tCK >= datasheet tWR and WR <= controller's tWR cycles * nphases, electrical "
        "fields decode to the requested options, no reserved bit set, sequence order sane; C and Python headers parsed back to "
        "the same (address, bank, command, delay) list; non-trivial = contract evaluated and an MRS with CL was decoded; "
        "distinct = distinct (memtype, CL, CWL, WR, rate, options)")
ASSUMPTIONS = [
    "JEDEC mode-register field tables as transcribed in vfw/jedec.py (SDR, DDR, LPDDR, DDR2, DDR3, DDR4, LPDDR4, LPDDR5)",
    "clocks are restricted to each standard's tCK range (DDR2 <= 8 ns, DDR3 <= 3.3 ns, DDR4 <= 1.6 ns) and to what "
    "get_default_cl_cwl / the LPDDR4 / LPDDR5 PHY tables accept",
    "datasheet tWR is module.get('tWR') of the library entry the sweep pairs with the clock",
]
MIN_NONTRIVIAL = {"quick": 40, "thorough": 40}

COUNTERS = dict(evaluations=0)
CTX = {}


class InitContractBroken(Exception):
    def __init__(self, witness):
        Exception.__init__(self, str(witness))
        self.witness = witness


# ------------------------------------------------------------------------------------------ the oracle
def check_sequence(phy, timing, seq, mr_ret, ctx):
    from .. import jedec as J
    from litedram.common import burst_lengths
    memtype = phy.memtype
    out = []
    info = {}
    MRS = "DFII_COMMAND_RAS|DFII_COMMAND_CAS|DFII_COMMAND_WE|DFII_COMMAND_CS"
    ZQ = "DFII_COMMAND_WE|DFII_COMMAND_CS"
    want_bl = phy.nphases if memtype == "SDR" else burst_lengths[memtype]
    tck = ctx.get("tck_ns")
    dec = {}
    last_mrs_idx = None
    zq_idx = None
    order = []
    for idx, (comment, a, ba, cmd, delay) in enumerate(seq):
        if not isinstance(a, int) or not isinstance(ba, int) or a < 0 or ba < 0:
            out.append(dict(problem="non-integer operand", step=comment))
            continue
        if cmd == MRS:
            if ba == 7 and memtype == "DDR4":
                order.append("RCD")
                continue
            last_mrs_idx = idx
            try:
                if memtype == "SDR":
                    d = J.decode_sdr_mr(a) if ba == 0 else None
                elif memtype in ("DDR", "LPDDR"):
                    d = J.decode_ddr_mr(a, lp=(memtype == "LPDDR")) if ba == 0 else dict(raw=a)
                elif memtype == "DDR2":
                    d = J.decode_ddr2_mr(a) if ba == 0 else dict(raw=a)
                elif memtype == "DDR3":
                    d = J.decode_ddr3(ba, a)
                elif memtype == "DDR4":
                    d = J.decode_ddr4(ba, a)
                elif memtype == "LPDDR4":
                    d = J.decode_lpddr4(ba, a)
                elif memtype == "LPDDR5":
                    d = J.decode_lpddr5(ba, a, phy.wck_ck_ratio)
                else:
                    d = dict(raw=a)
            except (J.DecodeError, KeyError) as e:
                out.append(dict(problem="mode register does not decode (reserved/overflowing field)", mr=ba, value=hex(a), why=str(e)))
                continue
            if d is not None:
                dec[ba] = d      # the last write to a register is what stays programmed
            order.append("MR%d" % ba)
        elif cmd == ZQ and memtype in ("DDR3", "DDR4"):
            zq_idx = idx
            order.append("ZQCL")
        elif "RAS" in cmd and "CAS" in cmd and "WE" not in cmd:
            order.append("REF")
        elif "RAS" in cmd and "WE" in cmd and "CAS" not in cmd:
            order.append("PREA" if (a >> 10) & 1 else "PRE")
        else:
            order.append("CTRL")
    info["order"] = order
    # ---- latencies and burst length
    main = {"SDR": 0, "DDR": 0, "LPDDR": 0, "DDR2": 0, "DDR3": 0, "DDR4": 0, "LPDDR4": 1, "LPDDR5": 2}.get(memtype)
    m0 = dec.get(main)
    if m0 is None:
        out.append(dict(problem="no mode register carrying the latency was written", memtype=memtype))
        return out, info
    if memtype in ("SDR", "DDR", "LPDDR", "DDR2", "DDR3", "DDR4", "LPDDR4"):
        if m0.get("BL") != want_bl:
            out.append(dict(problem="burst length", programmed=m0.get("BL"), controller=want_bl))
    cl_prog = m0.get("CL", m0.get("RL"))
    if memtype == "LPDDR4":
        cl_prog = dec.get(2, {}).get("RL")
    info["CL"] = cl_prog
    if cl_prog != phy.cl:
        out.append(dict(problem="CAS latency", programmed=cl_prog, phy=phy.cl))
    cwl_prog = None
    if memtype in ("DDR3", "DDR4"):
        cwl_prog = dec.get(2, {}).get("CWL")
    elif memtype == "LPDDR4":
        cwl_prog = dec.get(2, {}).get("WL")
    elif memtype == "LPDDR5":
        cwl_prog = dec.get(1, {}).get("WL")
    elif memtype == "DDR2":
        cwl_prog = (cl_prog - 1) if cl_prog is not None else None     # WL = RL - 1 with AL = 0 (EMR programmed to 0)
    if cwl_prog is not None:
        info["CWL"] = cwl_prog
        if cwl_prog != phy.cwl:
            out.append(dict(problem="CAS write latency", programmed=cwl_prog, phy=phy.cwl,
                            note="DDR2: WL = CL-1 (AL=0)" if memtype == "DDR2" else None))
    # ---- write recovery
    wr = m0.get("WR", m0.get("nWR"))
    if memtype == "LPDDR5":
        wr = dec.get(2, {}).get("nWR")
    info["WR"] = wr
    if wr is not None and tck is not None:
        twr = ctx.get("tWR")   # (ck, ns)
        if twr is not None:
            need = max(twr[0] or 0, math.ceil((Fraction(twr[1]) - Fraction(1, 1000)) / Fraction(tck)))
            info["WR_needed"] = need
            if wr < need:
                out.append(dict(problem="write recovery shorter than datasheet tWR", WR_programmed=wr, tck_ns=float(tck),
                                tWR_ns=twr[1], WR_needed=need, nphases=phy.nphases,
                                controller_tWTR_cycles=getattr(timing, "tWTR", None),
                                controller_tWR_cycles=getattr(timing, "tWR", None)))
        if ctx.get("check_wr_upper", True) and timing is not None and getattr(timing, "tWR", None) is not None:
            allowed = timing.tWR * phy.nphases
            info["WR_allowed"] = allowed
            if wr > allowed:
                out.append(dict(problem="write recovery longer than the controller waits", WR_programmed=wr,
                                controller_tWR_tck=allowed))
    # ---- electrical options decode to what was requested
    el = ctx.get("electrical")
    if el and memtype == "DDR3":
        rn = {"disabled": 0, "60ohm": 1, "120ohm": 2, "40ohm": 3, "20ohm": 4, "30ohm": 5}
        rw = {"disabled": 0, "60ohm": 1, "120ohm": 2}
        ro = {"40ohm": 0, "34ohm": 1}
        m1, m2 = dec.get(1, {}), dec.get(2, {})
        for (got, want, nm) in ((m1.get("RTT_NOM"), rn[el["rtt_nom"]], "rtt_nom"), (m2.get("RTT_WR"), rw[el["rtt_wr"]], "rtt_wr"),
                                (m1.get("ODS"), ro[el["ron"]], "ron"), (m1.get("TDQS"), el["tdqs"], "tdqs")):
            if got != want:
                out.append(dict(problem="electrical option", option=nm, programmed=got, requested=want))
        for nm in ("DLL_DISABLE", "AL", "WL", "QOFF"):
            if m1.get(nm):
                out.append(dict(problem="MR1 side effect", field=nm, value=m1.get(nm)))
    if el and memtype == "DDR4":
        rn = {"disabled": 0, "60ohm": 1, "120ohm": 2, "40ohm": 3, "240ohm": 4, "48ohm": 5, "80ohm": 6, "34ohm": 7}
        rw = {"disabled": 0, "120ohm": 1, "240ohm": 2, "high-z": 3, "80ohm": 4}
        ro = {"34ohm": 0, "48ohm": 1}
        m1, m2 = dec.get(1, {}), dec.get(2, {})
        for (got, want, nm) in ((m1.get("RTT_NOM"), rn[el["rtt_nom"]], "rtt_nom"), (m2.get("RTT_WR"), rw[el["rtt_wr"]], "rtt_wr"),
                                (m1.get("ODI"), ro[el["ron"]], "ron"), (m1.get("TDQS"), el["tdqs"], "tdqs")):
            if got != want:
                out.append(dict(problem="electrical option", option=nm, programmed=got, requested=want))
        if not m1.get("DLL_ENABLE"):
            out.append(dict(problem="DDR4 MR1: DLL not enabled"))
        for nm in ("AL", "WL", "QOFF"):
            if m1.get(nm):
                out.append(dict(problem="MR1 side effect", field=nm, value=m1.get(nm)))
        frm = getattr(timing, "fine_refresh_mode", None)
        if frm and dec.get(3, {}).get("FINE_REFRESH") != frm:
            out.append(dict(problem="fine refresh mode", programmed=dec.get(3, {}).get("FINE_REFRESH"), controller=frm))
        if not dec.get(5, {}).get("DM"):
            out.append(dict(problem="DDR4 MR5: data mask not enabled although the controller uses write masks"))
    # ---- order
    if memtype in ("DDR3", "DDR4"):
        if zq_idx is None or last_mrs_idx is None or zq_idx < last_mrs_idx:
            out.append(dict(problem="ZQ calibration is not after the last mode register write", order=order))
    if memtype in ("SDR", "DDR", "LPDDR", "DDR2"):
        seen_prea = False
        for o in order:
            if o == "PREA":
                seen_prea = True
            if o == "REF" and not seen_prea:
                out.append(dict(problem="auto refresh before any precharge-all", order=order))
                break
        if order.count("REF") < 2:
            out.append(dict(problem="fewer than two auto refreshes in the init sequence", order=order))
    # returned mr dict consistent with the sequence
    if mr_ret:
        for k, val in mr_ret.items():
            written = [a for (c, a, ba, cmd, d) in seq if cmd == MRS and ba == k]
            if written and written[-1] != val:
                out.append(dict(problem="returned mode-register table differs from the sequence", mr=k, table=val, sequence=written[-1]))
    return out, info


def init_sequence_consistent(phy_settings, timing_settings, result):
    COUNTERS["evaluations"] += 1
    seq, mr = result
    w, info = check_sequence(phy_settings, timing_settings, seq, mr, CTX)
    CTX["last_witness"] = w
    CTX["last_info"] = info
    if CTX.get("record_only"):
        return True      # header rendering: the sequence itself was already judged by the direct call
    return not w


def _error(phy_settings, timing_settings, result):
    return InitContractBroken(dict(memtype=phy_settings.memtype, cl=phy_settings.cl, cwl=phy_settings.cwl,
                                   nphases=phy_settings.nphases, problems=CTX.get("last_witness")))


_wrapped = False


def install_contract():
    global _wrapped
    if _wrapped:
        return
    import icontract
    from litedram import init as I
    I.get_sdram_phy_init_sequence = icontract.ensure(init_sequence_consistent, error=_error)(I.get_sdram_phy_init_sequence)
    _wrapped = True


# ------------------------------------------------------------------------------------------ header readers
def parse_c_header(text):
    defines = {}
    for m in re.finditer(r"#define\s+(DFII_\w+)\s+(0x[0-9a-fA-F]+)", text):
        defines[m.group(1)] = int(m.group(2), 16)
    body = text[text.index("static inline void init_sequence(void)"):]
    steps = []
    cur = None
    for line in body.splitlines():
        line = line.strip()
        m = re.match(r"sdram_dfii_pi0_address_write\((0x[0-9a-fA-F]+|\d+)\);", line)
        if m:
            cur = dict(a=int(m.group(1), 0), ba=None, cmd=None, delay=0, kind=None)
            steps.append(cur)
            continue
        m = re.match(r"sdram_dfii_pi0_baddress_write\((\d+)\);", line)
        if m and cur is not None:
            cur["ba"] = int(m.group(1))
            continue
        m = re.match(r"(command_p0|sdram_dfii_control_write)\((.*)\);", line)
        if m and cur is not None:
            val = 0
            for tok in m.group(2).split("|"):
                val |= defines[tok.strip()]
            cur["cmd"] = val
            cur["kind"] = "command" if m.group(1) == "command_p0" else "control"
            continue
        m = re.match(r"cdelay\((\d+)\);", line)
        if m and cur is not None:
            cur["delay"] = int(m.group(1))
    return [(s["a"], s["ba"], s["kind"], s["cmd"], s["delay"]) for s in steps]


def parse_py_header(text):
    ns = {}
    exec(text, ns)
    out = []
    for (comment, a, ba, cmd, delay) in ns["init_sequence"]:
        out.append((a, ba, cmd, delay))
    return out, ns


def compare_headers(phy, timing, geom):
    from litedram import init as I
    c = parse_c_header(I.get_sdram_phy_c_header(phy, timing, geom))
    p, ns = parse_py_header(I.get_sdram_phy_py_header(phy, timing))
    out = []
    if len(c) != len(p):
        out.append(dict(problem="C and Python headers have different numbers of steps", c_steps=len(c), py_steps=len(p),
                        clam_shell=bool(phy.is_clam_shell), rdimm=bool(phy.is_rdimm)))
    for k, (cs, ps) in enumerate(zip(c, p)):
        a, ba, kind, cmd, delay = cs
        pa, pba, pcmd, pdelay = ps
        if (a, ba, cmd, delay) != (pa, pba, pcmd, pdelay):
            out.append(dict(problem="C and Python headers differ", step=k, c=dict(a=hex(a), ba=ba, cmd=hex(cmd), delay=delay),
                            py=dict(a=hex(pa), ba=pba, cmd=hex(pcmd), delay=pdelay),
                            clam_shell=bool(phy.is_clam_shell), rdimm=bool(phy.is_rdimm)))
            break
    return out, len(c)


# ------------------------------------------------------------------------------------------ the sweep
TCK_MAX_NS = {"DDR2": 8.0, "DDR3": 3.3, "DDR4": 1.6}


def cases(tier, seed):
    from .. import modlib
    out = []
    nclk = 10 if tier == "quick" else 40
    for cls in modlib.module_classes(("SDR", "DDR", "LPDDR", "DDR2", "DDR3", "DDR4")):
        for sg in modlib.speedgrades(cls):
            for rate in modlib.RATES[cls.memtype] + (["1:4"] if cls.memtype == "DDR2" else []):
                out.append(dict(kind="module", cls=cls.__name__, speedgrade=sg, rate=rate, nclk=nclk,
                                seed="C17/%d/%s/%s/%s" % (seed, cls.__name__, sg, rate),
                                name="%s-%s-%s" % (cls.__name__, sg, rate.replace(":", "to")), cost=1))
    for mt in ("LPDDR4", "LPDDR5-2", "LPDDR5-4"):
        out.append(dict(kind=mt, seed="C17/%d/%s" % (seed, mt), name=mt, cost=1))
    for mt in ("DDR2", "DDR3", "DDR4"):
        out.append(dict(kind="explicit", memtype=mt, seed="C17/%d/explicit/%s" % (seed, mt), name="explicit-latencies-" + mt, cost=2))
    for k in range(6 if tier == "quick" else 24):
        out.append(dict(kind="variants", idx=k, seed="C17/%d/var/%d" % (seed, k), name="variants-%d" % k, cost=1))
    return out


def _phy_for(memtype, nphases, clk_freq, databits=16):
    from ..wholecore import module_phy
    return module_phy(memtype, nphases, databits, clk_freq)


def _run_one(phy, timing, geom, ctx, viol, sigs, stats, with_headers):
    from litedram import init as I
    CTX.clear()
    CTX.update(ctx)
    e0 = COUNTERS["evaluations"]
    try:
        I.get_sdram_phy_init_sequence(phy, timing)
        info = CTX.get("last_info", {})
        sigs.add((phy.memtype, info.get("CL"), info.get("CWL"), info.get("WR"), phy.nphases, str(ctx.get("electrical")),
                  bool(phy.is_rdimm), bool(phy.is_clam_shell)))
        stats["decoded"] += 1
    except InitContractBroken as e:
        w = dict(kind="init-contract", **e.witness)
        w["config"] = {k: v for k, v in ctx.items() if k in ("cls", "speedgrade", "rate", "clk_freq", "electrical")}
        if len(viol) < 60:
            viol.append(w)
    except (KeyError, ValueError, AssertionError, IndexError) as e:
        if ctx.get("explicit") and isinstance(e, KeyError):
            stats["unsupported"] = stats.get("unsupported", 0) + 1      # a latency the generator's table does not offer
        elif len(viol) < 60:
            viol.append(dict(kind="generator-raised", error=repr(e), memtype=phy.memtype, cl=phy.cl, cwl=phy.cwl,
                             config={k: v for k, v in ctx.items() if k in ("cls", "speedgrade", "rate", "clk_freq", "electrical")}))
    stats["calls"] += 1
    stats["evals"] += COUNTERS["evaluations"] - e0
    if with_headers:
        try:
            CTX["record_only"] = True
            hv, n = compare_headers(phy, timing, geom)
            stats["header_steps"] += n
            stats["headers"] += 1
            for w in hv:
                if len(viol) < 60:
                    viol.append(dict(kind="header-mismatch", memtype=phy.memtype, **w))
        except InitContractBroken:
            stats["headers"] += 1   # already reported by the sequence contract above
        except Exception as e:
            if len(viol) < 60:
                viol.append(dict(kind="header-generator-raised", error=repr(e), memtype=phy.memtype))


def run_case(case):
    from litedram import modules as M
    from litedram.common import GeomSettings, get_default_cl_cwl
    install_contract()
    r = random.Random(case["seed"])
    viol, sigs = [], set()
    stats = dict(calls=0, evals=0, decoded=0, headers=0, header_steps=0)
    if case["kind"] == "module":
        cls = getattr(M, case["cls"])
        mt = cls.memtype
        n = int(case["rate"].split(":")[1])
        from .. import modlib
        rated = max(modlib.dram_clocks_mhz(cls, case["speedgrade"]))
        lo = 1000.0 / TCK_MAX_NS[mt] if mt in TCK_MAX_NS else {"SDR": 25, "DDR": 83, "LPDDR": 50}[mt]
        hi = max(rated, lo * 1.05)
        clocks = [lo * (hi / lo) ** (i / max(1, case["nclk"] - 1)) for i in range(case["nclk"])]
        for mhz in clocks:
            clk = mhz * 1e6 / n
            kw = {"speedgrade": case["speedgrade"]} if case["speedgrade"] else {}
            try:
                module = cls(clk, case["rate"], **kw)
                phy = _phy_for(mt, n, clk)
            except ValueError:
                continue   # clock outside what the default CL/CWL table accepts
            if mt == "SDR":
                phy.cl = 2 if mhz <= 100 else 3
            el = None
            if mt == "DDR3":
                el = dict(rtt_nom=r.choice(["disabled", "60ohm", "120ohm", "40ohm", "20ohm", "30ohm"]),
                          rtt_wr=r.choice(["disabled", "60ohm", "120ohm"]), ron=r.choice(["40ohm", "34ohm"]), tdqs=r.choice([0, 1]))
            if mt == "DDR4":
                el = dict(rtt_nom=r.choice(["disabled", "60ohm", "120ohm", "40ohm", "240ohm", "48ohm", "80ohm", "34ohm"]),
                          rtt_wr=r.choice(["disabled", "120ohm", "240ohm", "high-z", "80ohm"]), ron=r.choice(["34ohm", "48ohm"]), tdqs=0)
            if el:
                phy.add_electrical_settings(**el)
                # the generator reads these attribute names; set them as well so that the requested values are what it
                # encodes (the property is about the encoding: no overlap / overflow)
                for k_, v_ in el.items():
                    setattr(phy, k_, v_)
            ctx = dict(tck_ns=Fraction(1000) / Fraction(mhz), tWR=tuple(module.get("tWR")), electrical=el, cls=case["cls"],
                       speedgrade=case["speedgrade"], rate=case["rate"], clk_freq=clk)
            _run_one(phy, module.timing_settings, module.geom_settings, ctx, viol, sigs, stats, with_headers=(r.random() < 0.3))
    elif case["kind"] == "LPDDR4":
        from ..core import make_phy
        from .. import jedec as J
        for (rl, wl, nwr, mhz) in J.LPDDR4_ROWS:
            tck = Fraction(1000, mhz)      # fastest clock of the range this RL/WL pair is for
            for rep in range(4):
                phy = make_phy("LPDDR4", 8, 16, cl=rl, cwl=wl, read_latency=8, write_latency=2, dfi_mult=2)
                opts = None
                if rep:
                    # electrical options of the PHY settings (every legal value of the JEDEC tables): the fields they are
                    # packed into must not spill into the latency / burst-length fields or over 8 bits
                    odt = ["disable", "RZQ/1", "RZQ/2", "RZQ/3", "RZQ/4", "RZQ/5", "RZQ/6"]
                    rc, rd = r.choice([0, 1]), r.choice([0, 1])
                    opts = dict(dq_odt=r.choice(odt), ca_odt=r.choice(odt), pull_down_drive_strength=r.choice(odt[1:]),
                                vref_ca_range=rc, vref_ca=round([10.0, 22.0][rc] + 0.4 * r.randrange(51), 1),
                                vref_dq_range=rd, vref_dq=round([10.0, 22.0][rd] + 0.4 * r.randrange(51), 1))
                    for k_, v_ in opts.items():
                        setattr(phy, k_, v_)
                ctx = dict(tck_ns=tck, tWR=(4, 18.0), check_wr_upper=False, cls="LPDDR4 RL=%d WL=%d %s" % (rl, wl, opts or ""))
                _run_one(phy, None, GeomSettings(3, 15, 10), ctx, viol, sigs, stats, with_headers=(rep < 2))
    elif case["kind"].startswith("LPDDR5"):
        from ..core import make_phy
        from .. import jedec as J
        ratio = int(case["kind"].split("-")[1])
        for (wl, rl, nwr) in J.LPDDR5_ROWS[ratio]:
            phy = make_phy("LPDDR5", 1, 16, cl=rl, cwl=wl, read_latency=8, write_latency=2, dfi_mult=16)
            phy.wck_ck_ratio = ratio
            ctx = dict(tck_ns=None, check_wr_upper=False, cls="LPDDR5 ratio=%d WL=%d RL=%d" % (ratio, wl, rl))
            _run_one(phy, None, GeomSettings(4, 15, 6), ctx, viol, sigs, stats, with_headers=True)
            info = CTX.get("last_info", {})
            if info.get("WR") is not None and info.get("WR") != nwr:
                viol.append(dict(kind="init-contract", memtype="LPDDR5", problems=[dict(problem="nWR does not belong to the RL/WL row",
                                                                                         programmed=info.get("WR"), row=nwr)]))
    elif case["kind"] == "explicit":
        # latencies passed explicitly to the PHY (S7DDRPHY / USDDRPHY take cl / cwl arguments; the default table only ever
        # selects a few of them): every CL x CWL the JEDEC mode-register tables define
        from .. import jedec as J
        mt = case["memtype"]
        if mt == "DDR2":
            combos = [(cl, cl - 1) for cl in (3, 4, 5, 6, 7)]
            cls, n, clk = M.MT47H64M16, 2, 100e6
        elif mt == "DDR3":
            combos = [(cl, cwl) for cl in sorted(set(J.DDR3_CL.values())) for cwl in (5, 6, 7, 8, 9, 10, 11, 12)]
            cls, n, clk = M.MT41K128M16, 4, 100e6
        else:
            combos = [(cl, cwl) for cl in sorted(set(J.DDR4_CL.values())) for cwl in sorted(set(J.DDR4_CWL.values()))]
            cls, n, clk = M.MT40A512M16, 4, 200e6
        module = cls(clk, "1:%d" % n)
        for (cl, cwl) in combos:
            phy = _phy_for(mt, n, clk)
            phy.cl, phy.cwl = cl, cwl
            ctx = dict(tck_ns=None, check_wr_upper=False, explicit=True, cls="%s explicit CL=%d CWL=%d" % (mt, cl, cwl),
                       rate="1:%d" % n, clk_freq=clk, electrical=None)
            _run_one(phy, module.timing_settings, module.geom_settings, ctx, viol, sigs, stats, with_headers=(cl % 4 == 1))
    else:
        # RDIMM and clam-shell variants of DDR4, C vs Python rendering
        cls = M.MTA18ASF2G72PZ if case["idx"] % 2 == 0 else M.MT40A512M16
        clk = r.choice([150e6, 175e6, 200e6, 225e6, 250e6, 300e6])
        module = cls(clk, "1:4")
        phy = _phy_for("DDR4", 4, clk)
        variant = ["rdimm", "clam", "plain", "rdimm", "clam", "rdimm+clam"][case["idx"] % 6]
        if "rdimm" in variant:
            phy.set_rdimm(tck=1 / (4 * clk), rcd_pll_bypass=r.choice([False, True]), rcd_ca_cs_drive=r.randint(0, 15),
                          rcd_odt_cke_drive=r.randint(0, 15), rcd_clk_drive=r.randint(0, 15))
        if "clam" in variant:
            phy.is_clam_shell = True
        ctx = dict(tck_ns=Fraction(10 ** 9) / Fraction(clk) / 4, tWR=tuple(module.get("tWR")), cls=cls.__name__, rate="1:4",
                   clk_freq=clk, electrical=None, variant=variant)
        _run_one(phy, module.timing_settings, module.geom_settings, ctx, viol, sigs, stats, with_headers=True)
    if stats["calls"] and stats["evals"] == 0:
        return dict(verdict="inconclusive", why="contract never evaluated", violations=[], stats=stats, nontrivial=False, signature="")
    st = dict(stats)
    st["signatures"] = len(sigs)
    return dict(verdict="violated" if viol else "held", violations=viol[:20], stats=st,
                nontrivial=stats["decoded"] > 0 or bool(viol), signature=case["name"] + "|" + str(sorted(map(str, sigs)))[:200])


def aggregate(results, cases):
    tot = dict(calls=0, evals=0, decoded=0, headers=0, header_steps=0, signatures=0)
    for r in results:
        for k in tot:
            tot[k] += (r.get("stats") or {}).get(k, 0) or 0
    samples = [dict(case=r["name"], verdict=r["verdict"], stats=r.get("stats")) for r in results[:3]]
    return dict(observed=tot, samples=samples)


def summary(cov):
    o = cov["observed"]
    return ("  observed: %d generator calls, %d contract evaluations, %d sequences fully decoded, %d C/Python header pairs "
            "compared (%d steps), %d distinct (memtype, CL, CWL, WR, ...) signatures" % (
                o["calls"], o["evals"], o["decoded"], o["headers"], o["header_steps"], o["signatures"]))
