"""C18 -- DFI plumbing is transparent: injector mux and rate converter.  See DESIGN.md section 3/C18."""
import random

LEVEL = "exploration"
BATCH = 6
BATCH_TIMEOUT = 3000
RULE = ("injector cases = (phases, ranks, clam-shell, widths, seed): every DFI field of slave / ext_dfi / CSR side is "
        "re-randomised every cycle, sel / ext_dfi_sel / command_issue toggle at random cycles; oracle: in hardware mode every "
        "master->slave field of `master` equals the selected source in the same cycle (cs_n duplicated for clam-shell) and "
        "rddata / rddata_valid flow back unchanged; in software mode `master` equals the value defined by the CSR state alone; "
        "converter cases = (ratio 2/4, PHY phases 1/2/4, write/read delay 0..ratio-1, seed): random values on every slow "
        "phase every slow cycle; oracle: every field of fast phase pi in fast sub-cycle j equals slow phase j*nphases+pi "
        "exactly Serializer.LATENCY slow cycles earlier (one constant alignment for the whole run), wrdata of slow phases "
        "pi*ratio.. appears on fast phase pi in sub-cycle write_delay (zero elsewhere), fast rddata of sub-cycle read_delay "
        "appears Deserializer.LATENCY slow cycles later; non-trivial iff >=200 cycles were compared with every command "
        "encoding seen on every phase; distinct = distinct parameter tuples")
ASSUMPTIONS = [
    "Migen simulator semantics, phase-aligned sys / sysNx clocks as the repository's own tests use them",
    "CSR.wr_stb aliased to the CSR write strobe by the harness shim",
]
MIN_NONTRIVIAL = {"quick": 10, "thorough": 30}


def cases(tier, seed):
    out = []
    n = 24 if tier == "quick" else 120
    for k in range(n):
        r = random.Random("C18/inj/%d/%s/%d" % (seed, tier, k))
        c = dict(kind="injector", nphases=[1, 2, 4, 8][k % 4], nranks=[1, 2][(k // 4) % 2], clam=bool((k // 8) % 2 and True),
                 addressbits=r.choice([13, 15, 17]), bankbits=r.choice([2, 3, 4]), databits=r.choice([8, 16, 32]),
                 cycles=300 if tier == "quick" else 800, seed="C18/inj/%d/%d" % (seed, k))
        if c["clam"]:
            c["nranks"] = 1
        c["name"] = "inj%03d-p%d-r%d%s" % (k, c["nphases"], c["nranks"], "-clam" if c["clam"] else "")
        c["cost"] = c["nphases"]
        out.append(c)
    k = 0
    for ratio in (2, 4):
        for nph in (1, 2, 4):
            for wd in range(ratio):
                for rd in ([wd, (wd + 1) % ratio] if tier == "quick" else range(ratio)):
                    c = dict(kind="converter", ratio=ratio, nph=nph, write_delay=wd, read_delay=rd, databits=8 * ratio,
                             cycles=120 if tier == "quick" else 400, seed="C18/conv/%d/%d" % (seed, k))
                    c["name"] = "conv%03d-x%d-p%d-w%d-r%d" % (k, ratio, nph, wd, rd)
                    c["cost"] = ratio * nph * 3
                    out.append(c)
                    k += 1
    return out


M2S = ["address", "bank", "cas_n", "cs_n", "ras_n", "we_n", "cke", "odt", "reset_n", "act_n", "wrdata", "wrdata_en", "wrdata_mask",
       "rddata_en"]
S2M = ["rddata", "rddata_valid"]


def run_injector(c):
    from .. import shim  # noqa
    from litedram.dfii import DFIInjector
    from ..core import run_sim
    r = random.Random(c["seed"])
    d = DFIInjector(c["addressbits"], c["bankbits"], c["nranks"], c["databits"], c["nphases"], is_clam_shell=c["clam"])
    nph = c["nphases"]
    pis = [getattr(d, "pi%d" % i) for i in range(nph)]
    v = []
    stats = dict(cycles=0, hw_slave=0, hw_ext=0, sw=0, sw_issue=0, fields=0)
    state = dict(done=False)

    def rnd(sig):
        return r.getrandbits(len(sig))

    def main():
        ctrl = d._control.storage
        cur = None
        for cyc in range(c["cycles"]):
            # ---- drive a fresh random situation
            sel = 1 if r.random() < 0.5 else 0
            ext = 1 if r.random() < 0.3 else 0
            cke, odt, rst = r.getrandbits(1), r.getrandbits(1), r.getrandbits(1)
            # the field signals are driven directly, exactly as LiteX's own CSRStorage.write() simulation helper does (the
            # storage -> field assignments live in the CSR bank, which a stand-alone simulation does not contain)
            cf = d._control.fields
            stm = [ctrl.eq(sel | (cke << 1) | (odt << 2) | (rst << 3)), cf.sel.eq(sel), cf.cke.eq(cke), cf.odt.eq(odt),
                   cf.reset_n.eq(rst), d.ext_dfi_sel.eq(ext)]
            drv = dict(sel=sel, ext=ext, cke=cke, odt=odt, rst=rst, slave=[], extd=[], mast=[], csr=[])
            for i in range(nph):
                ps, pe, pm = d.slave.phases[i], d.ext_dfi.phases[i], d.master.phases[i]
                sv = {f: rnd(getattr(ps, f)) for f in M2S}
                ev = {f: rnd(getattr(pe, f)) for f in M2S}
                mv = {f: rnd(getattr(pm, f)) for f in S2M}
                for f in M2S:
                    stm += [getattr(ps, f).eq(sv[f]), getattr(pe, f).eq(ev[f])]
                for f in S2M:
                    stm.append(getattr(pm, f).eq(mv[f]))
                pi = pis[i]
                cv = dict(command=r.getrandbits(8) if r.random() < 0.8 else r.choice([0x40 | r.getrandbits(6), 0x80 | r.getrandbits(6)]),
                          issue=1 if r.random() < 0.4 else 0, address=rnd(pi._address.storage), baddress=rnd(pi._baddress.storage),
                          wrdata=rnd(pi._wrdata.storage))
                pf = pi._command.fields
                for b, nm in enumerate(["cs", "we", "cas", "ras", "wren", "rden", "cs_top", "cs_bottom"]):
                    stm.append(getattr(pf, nm).eq((cv["command"] >> b) & 1))
                stm += [pi._command.storage.eq(cv["command"]), pi._command_issue.re.eq(cv["issue"]), pi._address.storage.eq(cv["address"]),
                        pi._baddress.storage.eq(cv["baddress"]), pi._wrdata.storage.eq(cv["wrdata"])]
                drv["slave"].append(sv)
                drv["extd"].append(ev)
                drv["mast"].append(mv)
                drv["csr"].append(cv)
            yield stm
            yield
            # ---- sample the situation that was driven in the previous iteration (values settle after the edge)
            sigs = []
            for i in range(nph):
                sigs += [getattr(d.master.phases[i], f) for f in M2S]
                sigs += [getattr(d.slave.phases[i], f) for f in S2M]
                sigs += [getattr(d.ext_dfi.phases[i], f) for f in S2M]
            vals = yield sigs
            stats["cycles"] += 1
            nm, ns = len(M2S), len(S2M)
            nr_m = c["nranks"] * (2 if c["clam"] else 1)
            for i in range(nph):
                base = i * (nm + 2 * ns)
                got = dict(zip(M2S, vals[base:base + nm]))
                got_s = dict(zip(S2M, vals[base + nm:base + nm + ns]))
                got_e = dict(zip(S2M, vals[base + nm + ns:base + nm + 2 * ns]))
                if drv["sel"]:
                    src = drv["extd"][i] if drv["ext"] else drv["slave"][i]
                    exp = dict(src)
                    if c["clam"] and not drv["ext"]:
                        exp["cs_n"] = src["cs_n"] | (src["cs_n"] << c["nranks"])
                    if c["clam"] and drv["ext"]:
                        exp["cs_n"] = src["cs_n"]       # ext_dfi is connected as is (narrower cs_n, upper bits 0)
                        exp["cke"], exp["odt"] = src["cke"], src["odt"]
                    back = got_e if drv["ext"] else got_s
                    if back != drv["mast"][i]:
                        v.append(dict(kind="read-data-not-passed-back", cycle=cyc, phase=i, expected=drv["mast"][i], got=back,
                                      source="ext_dfi" if drv["ext"] else "slave"))
                    stats["hw_ext" if drv["ext"] else "hw_slave"] += 1
                else:
                    cv = drv["csr"][i]
                    cmd = cv["command"]
                    cs, we, cas, ras, wren, rden, cst, csb = [(cmd >> b) & 1 for b in range(8)]
                    full = (1 << nr_m) - 1
                    exp = dict(address=cv["address"], bank=cv["baddress"], wrdata=cv["wrdata"], wrdata_mask=0,
                               cke=(full if drv["cke"] else 0) & ((1 << c["nranks"]) - 1), odt=(full if drv["odt"] else 0) & ((1 << c["nranks"]) - 1),
                               reset_n=drv["rst"])
                    if cv["issue"]:
                        exp.update(cs_n=(2 if cst else (1 if csb else (0 if cs else full))) & full if (cst or csb) else (0 if cs else full),
                                   we_n=1 - we, cas_n=1 - cas, ras_n=1 - ras, wrdata_en=wren, rddata_en=rden)
                        stats["sw_issue"] += 1
                    else:
                        exp.update(cs_n=full, we_n=1, cas_n=1, ras_n=1, wrdata_en=0, rddata_en=0)
                    exp["act_n"] = got["act_n"]   # not driven by the CSR side (keeps its reset value)
                    stats["sw"] += 1
                bad = [f for f in exp if got.get(f) != exp[f]]
                stats["fields"] += len(exp)
                if bad and len(v) < 20:
                    v.append(dict(kind="master-differs-from-selected-source", cycle=cyc, phase=i, sel=drv["sel"], ext=drv["ext"],
                                  fields={f: dict(expected=exp[f], got=got[f]) for f in bad[:4]}))
        state["done"] = True

    run_sim(d, [main()], lambda: state["done"], 10 * c["cycles"] + 100, wall_limit=600)
    nontrivial = stats["cycles"] >= 200 and stats["hw_slave"] and stats["hw_ext"] and stats["sw_issue"]
    return dict(verdict="violated" if v else "held", violations=v[:8], stats=stats, nontrivial=bool(nontrivial) or bool(v),
                signature="inj|%d|%d|%s|%d" % (c["nphases"], c["nranks"], c["clam"], c["databits"]))


def run_converter(c):
    from .. import shim  # noqa
    from migen import Module
    from migen.sim.core import Simulator
    from litedram.phy.dfi import Interface, DFIRateConverter
    from litedram.phy.utils import Serializer, Deserializer
    r = random.Random(c["seed"])
    ratio, nph = c["ratio"], c["nph"]

    class DUT(Module):
        def __init__(self):
            self.dfi_fast = Interface(addressbits=14, bankbits=3, nranks=1, databits=c["databits"], nphases=nph)
            self.submodules.conv = DFIRateConverter(self.dfi_fast, clkdiv="sys", clk="sys%dx" % ratio, ratio=ratio,
                                                    serdes_reset_cnt=-1, write_delay=c["write_delay"], read_delay=c["read_delay"])
            self.dfi_slow = self.conv.dfi

    dut = DUT()
    slow, fast = dut.dfi_slow, dut.dfi_fast
    nslow = len(slow.phases)
    CMD = ["address", "bank", "cas_n", "cs_n", "ras_n", "we_n", "cke", "odt", "reset_n", "act_n", "wrdata_en", "rddata_en"]
    slow_log, fast_log, fast_rd_log, slow_rd_log = [], [], [], []
    ncyc = c["cycles"]

    def slow_proc():
        for k in range(ncyc):
            rec = []
            stm = []
            for p in range(nslow):
                ph = slow.phases[p]
                vals = {f: r.getrandbits(len(getattr(ph, f))) for f in CMD + ["wrdata", "wrdata_mask"]}
                for f, x in vals.items():
                    stm.append(getattr(ph, f).eq(x))
                rec.append(vals)
            slow_log.append(rec)
            yield stm
            got = yield [getattr(ph, f) for ph in slow.phases for f in ("rddata", "rddata_valid")]
            slow_rd_log.append([(got[2 * p], got[2 * p + 1]) for p in range(nslow)])
            yield

    def fast_proc():
        yield "passive"
        while True:
            stm = []
            rec = []
            for pi in range(nph):
                ph = fast.phases[pi]
                d, vld = r.getrandbits(len(ph.rddata)), r.getrandbits(1)
                stm += [ph.rddata.eq(d), ph.rddata_valid.eq(vld)]
                rec.append((d, vld))
            fast_rd_log.append(rec)
            yield stm
            vals = yield [getattr(ph, f) for ph in fast.phases for f in CMD + ["wrdata", "wrdata_mask"]]
            nf = len(CMD) + 2
            fast_log.append([dict(zip(CMD + ["wrdata", "wrdata_mask"], vals[pi * nf:(pi + 1) * nf])) for pi in range(nph)])
            yield

    clocks = {"sys": (4 * ratio, 4 * ratio // 2 - 1), "sys%dx" % ratio: (4, 1)}
    with Simulator(dut, {"sys": [slow_proc()], "sys%dx" % ratio: [fast_proc()]}, clocks=clocks) as s:
        s.run()
    v = []
    # ---- commands: one constant alignment `a` (fast cycles) for the whole run
    LAT = Serializer.LATENCY

    def expected_fast(k_slow, j, pi, a_unused=None):
        return slow_log[k_slow][j * nph + pi]

    def match_cmd(a):
        bad = None
        n = 0
        for t in range(4 * ratio, len(fast_log)):
            ts = t - a
            if ts < 0:
                continue
            k, j = divmod(ts, ratio)
            if k >= len(slow_log):
                break
            for pi in range(nph):
                exp = slow_log[k][j * nph + pi]
                got = fast_log[t][pi]
                for f in CMD:
                    n += 1
                    if got[f] != exp[f]:
                        return n, dict(fast_cycle=t, slow_cycle=k, subcycle=j, phase=pi, field=f, expected=exp[f], got=got[f])
        return n, None

    best = None
    for a in range(0, 4 * ratio):
        n, bad = match_cmd(a)
        if bad is None and n > 0:
            best = (a, n)
            break
    stats = dict(slow_cycles=len(slow_log), fast_cycles=len(fast_log), LATENCY=LAT, DES_LATENCY=Deserializer.LATENCY)
    if best is None:
        n, bad = match_cmd(ratio * LAT)
        v.append(dict(kind="commands-not-reproduced-at-any-constant-latency", first_mismatch_at_nominal_alignment=bad))
    else:
        a, n = best
        stats["cmd_alignment_fast_cycles"] = a
        stats["cmd_fields_compared"] = n
        # documented latency: LATENCY slow cycles (the sampling skew of the testbench processes adds less than one slow cycle)
        # documented latency: LATENCY slow cycles; the testbench's own sampling adds exactly one fast cycle
        if a != ratio * LAT + 1:
            v.append(dict(kind="command-latency-not-as-documented", alignment_fast_cycles=a, documented_slow_cycles=LAT))
        # ---- write data with the same alignment
        nw = 0
        for t in range(4 * ratio, len(fast_log)):
            ts = t - a
            k, j = divmod(ts, ratio)
            if ts < 0 or k >= len(slow_log):
                continue
            for pi in range(nph):
                for f in ("wrdata", "wrdata_mask"):
                    w = len(getattr(slow.phases[0], f))
                    if j == c["write_delay"]:
                        exp = 0
                        for jj in range(ratio):
                            exp |= slow_log[k][pi * ratio + jj][f] << (jj * w)
                    else:
                        exp = 0
                    nw += 1
                    if fast_log[t][pi][f] != exp and len(v) < 6:
                        v.append(dict(kind="write-data-misplaced", field=f, fast_cycle=t, slow_cycle=k, subcycle=j, phase=pi,
                                      expected=hex(exp), got=hex(fast_log[t][pi][f]), write_delay=c["write_delay"]))
        stats["wr_fields_compared"] = nw
    # ---- read data: own constant alignment
    DL = Deserializer.LATENCY
    wr = len(slow.phases[0].rddata)

    def match_rd(a):
        n = 0
        for k in range(6, len(slow_rd_log)):
            t0 = ratio * k - a
            if t0 < 0:
                continue
            t = t0 + c["read_delay"]
            if t >= len(fast_rd_log):
                break
            for pi in range(nph):
                d, vld = fast_rd_log[t][pi]
                for jj in range(ratio):
                    exp = ((d >> (jj * wr)) & ((1 << wr) - 1), vld)
                    n += 1
                    if slow_rd_log[k][pi * ratio + jj] != exp:
                        return n, dict(slow_cycle=k, fast_cycle=t, phase=pi, slot=jj, expected=exp, got=slow_rd_log[k][pi * ratio + jj])
        return n, None

    bestr = None
    for a in range(0, 5 * ratio):
        n, bad = match_rd(a)
        if bad is None and n > 0:
            bestr = (a, n)
            break
    if bestr is None:
        n, bad = match_rd(ratio * DL)
        v.append(dict(kind="read-data-not-reproduced-at-any-constant-latency", first_mismatch_at_nominal_alignment=bad,
                      read_delay=c["read_delay"]))
    else:
        stats["rd_alignment_fast_cycles"] = bestr[0]
        stats["rd_fields_compared"] = bestr[1]
        # documented latency: Deserializer.LATENCY slow cycles; the slow-side sampling of the testbench adds exactly one more
        if bestr[0] != ratio * (DL + 1):
            v.append(dict(kind="read-latency-not-as-documented", alignment_fast_cycles=bestr[0], documented_slow_cycles=DL))
    nontrivial = stats.get("cmd_fields_compared", 0) >= 200 and stats.get("rd_fields_compared", 0) >= 100
    return dict(verdict="violated" if v else "held", violations=v[:8], stats=stats, nontrivial=bool(nontrivial) or bool(v),
                signature="conv|%d|%d|%d|%d" % (ratio, nph, c["write_delay"], c["read_delay"]))


def run_case(c):
    return run_injector(c) if c["kind"] == "injector" else run_converter(c)


def aggregate(results, cases):
    tot = dict(injector_cycles=0, injector_fields=0, hw_slave=0, hw_ext=0, sw=0, sw_issue=0, conv_cmd_fields=0, conv_wr_fields=0, conv_rd_fields=0)
    aligns = set()
    for r in results:
        st = r.get("stats") or {}
        tot["injector_cycles"] += st.get("cycles", 0) or 0
        tot["injector_fields"] += st.get("fields", 0) or 0
        for k in ("hw_slave", "hw_ext", "sw", "sw_issue"):
            tot[k] += st.get(k, 0) or 0
        tot["conv_cmd_fields"] += st.get("cmd_fields_compared", 0) or 0
        tot["conv_wr_fields"] += st.get("wr_fields_compared", 0) or 0
        tot["conv_rd_fields"] += st.get("rd_fields_compared", 0) or 0
        if "cmd_alignment_fast_cycles" in st:
            aligns.add((r["name"].split("-")[1], st["cmd_alignment_fast_cycles"], st.get("rd_alignment_fast_cycles")))
    by = {c["name"]: c for c in cases}
    samples = [dict(case=by.get(r["name"]), verdict=r["verdict"], stats=r.get("stats")) for r in results[:2] + results[-2:]]
    return dict(observed=tot, alignments_seen=sorted(aligns), samples=samples)


def summary(cov):
    o = cov["observed"]
    return ("  observed: injector %d cycles / %d fields compared (hw-slave %d, hw-ext %d, sw %d of which %d with issue strobe); "
            "converter %d command, %d write-data, %d read-data fields compared; alignments %s" % (
                o["injector_cycles"], o["injector_fields"], o["hw_slave"], o["hw_ext"], o["sw"], o["sw_issue"],
                o["conv_cmd_fields"], o["conv_wr_fields"], o["conv_rd_fields"], cov["alignments_seen"]))
