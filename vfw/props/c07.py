"""C07 -- width-converted ports behave like one memory.  See DESIGN.md section 3/C07."""
import random

LEVEL = "exploration"
BATCH = 10
BATCH_TIMEOUT = 3000
RULE = ("case = (conversion ratio up 1:2..1:32 / down 2:1..8:1, mode, reverse, address-order class, cmd.last / flush usage, "
        "stall profile of the abstract core stub, seed); contract master on the user side, byte-level sequential memory "
        "oracle, exactly-once accounting at the controller-side port (pulsed wdata.ready / rdata.valid as the real crossbar), "
        "final store == oracle on every touched wide word, bounded progress after a final flush; non-trivial iff >=20 user "
        "commands completed, >=1 partial wide word was committed (up) or >=1 multi-beat access (down) and >=1 read-after-write "
        "of the same wide word occurred (both-mode cases); distinct = distinct (direction, ratio, mode, reverse, class)")
ASSUMPTIONS = [
    "Migen simulator semantics",
    "abstract core stub is never stricter than the real core: wdata strobe >= 3 cycles, read data >= 5 cycles after the "
    "command was accepted, data phases in command order per port (C01 justifies the abstraction)",
    "the user-side master obeys the contract of the property; it ends every run with flush asserted",
]
MIN_NONTRIVIAL = {"quick": 12, "thorough": 60}
ORDERS = ["ascending", "descending", "repeated", "random", "strided", "ascending-partial", "ping-pong"]


def cases(tier, seed):
    n = 320 if tier == "quick" else 2400
    out = []
    for k in range(n):
        r = random.Random("C07/%d/%s/%d" % (seed, tier, k))
        up = (k % 3) != 2
        if up:
            ratio = r.choice([2, 2, 4, 4, 8, 16, 32])
            user_dw = r.choice([8, 16, 32]) if ratio <= 8 else 8
            core_dw = user_dw * ratio
        else:
            ratio = r.choice([2, 4, 8])
            core_dw = r.choice([8, 16, 32])
            user_dw = core_dw * ratio
        mode = ["both", "both", "write", "read"][k % 4]
        order = ORDERS[(k // 3) % len(ORDERS)]
        c = dict(up=up, ratio=ratio, user_dw=user_dw, core_dw=core_dw, mode=mode, reverse=bool(r.random() < 0.3),
                 order=order, nops=r.randint(30, 90), use_last=r.random() < 0.5, flush_prob=r.choice([0, 0, 0.02, 0.1]),
                 cmd_ready_prob=r.choice([1.0, 0.7, 0.3]), extra_lat=r.choice([(0, 0), (0, 6), (0, 30)]),
                 long_stall=r.choice([0, 0, 0.01]), gap_scale=r.choice([0.2, 1.0]), we_style=r.choice(["full", "mixed"]),
                 master_mode=r.choice(["fifo", "strict"]), group_last=bool(r.random() < 0.6),
                 seed="C07/%d/%d" % (seed, k))
        c["name"] = "%04d-%s%d-%s-%s%s" % (k, "up" if up else "down", ratio, mode, order, "-rev" if c["reverse"] else "")
        c["cost"] = 1
        out.append(c)
    # the converter as crossbar.get_port(data_width=...) inserts it, on the real controller + reference DRAM (address shift,
    # class M traffic only: ascending streams)
    for k in range(8 if tier == "quick" else 48):
        r = random.Random("C07/core/%d/%s/%d" % (seed, tier, k))
        c = dict(kind="core", clock_domain="sys", psys=10, pusr=10, phsys=0, phusr=0, cmd_buffer_depth=r.choice([4, 8]),
                 nops=r.randint(120, 220), cls="streams", data_width=[8, 16, 64, 128][k % 4], refresh=bool(k % 2), gap_scale=r.choice([0.1, 0.5]),
                 master_mode=r.choice(["fifo", "strict"]), reverse=bool(k % 8 >= 4), seed="C07/core/%d/%d" % (seed, k))
        c["name"] = "core%03d-dw%d%s" % (k, c["data_width"], "-rev" if c["reverse"] else "")
        c["cost"] = 3000
        out.append(c)
    return out


def gen_addrs(c, r, aw_user):
    """user addresses; for the up-converter several commands fall into one wide word"""
    ratio = c["ratio"] if c["up"] else 1
    n = c["nops"]
    order = c["order"]
    nwide = 1 << (aw_user - (ratio.bit_length() - 1))
    hot = [r.randrange(nwide) for _ in range(4)]
    out = []
    while len(out) < n:
        w = r.choice(hot) if r.random() < 0.7 else r.randrange(nwide)
        base = w * ratio
        if order == "ascending":
            out += [base + i for i in range(ratio)]
        elif order == "ascending-partial":
            a, b = sorted(r.sample(range(ratio + 1), 2)) if ratio > 1 else (0, 1)
            out += [base + i for i in range(a, b)]
        elif order == "descending":
            out += [base + i for i in reversed(range(ratio))]
        elif order == "repeated":
            a = base + r.randrange(ratio)
            out += [a] * r.randint(2, 4)
        elif order == "ping-pong":
            # two buffers a power of two apart (their wide-word addresses differ in one high bit only), visited alternately
            # with partial ascending runs: consecutive commands whose addresses differ only in the top bits
            bit = r.choice([aw_user - 1, aw_user - 2, aw_user - 1 - (ratio.bit_length() - 1), r.randrange(ratio.bit_length() - 1, aw_user)])
            other = (base ^ (1 << bit)) % (1 << aw_user)
            a, b = sorted(r.sample(range(ratio + 1), 2)) if ratio > 1 else (0, 1)
            for rep in range(r.randint(1, 3)):
                out += [base + i for i in range(a, b)] + [other + i for i in range(a, b)]
        elif order == "strided":
            st = r.choice([2, 3, ratio + 1])
            a = base
            for i in range(r.randint(2, 6)):
                out.append((a + i * st) % (1 << aw_user))
        else:
            out += [(base + r.randrange(ratio)) % (1 << aw_user) for _ in range(r.randint(1, 2 * ratio))]
    return out[:n]


def first_nonmonotone(ops, ratio):
    """Finding split, independent of where the converter happens to cut its merge windows (flush pulses and the
    all-chunks-collected rule move the cuts).  A *run* = maximal sequence of consecutive commands to one wide word in one
    direction with no cmd.last inside (cmd.last, a direction change and a wide-word change are the only forced cuts).
    Class M: inside every run the chunk index strictly increases, so every possible window is increasing.  Returns the
    index of the first command of the first run that violates this (class U from there on), or None (class M)."""
    key = None
    start = 0
    prev = None
    for k, o in enumerate(ops):
        kk = (o.addr // ratio, bool(o.we))
        ch = o.addr % ratio
        if prev is None or kk != key or prev[1]:
            key, start = kk, k
        elif ch <= prev[0]:
            return start
        prev = (ch, o.last)
    return None


def run_case(c):
    if c.get("kind") == "core":
        from .c08 import run_core_case
        res = run_core_case(c)
        for x in res.get("violations", []):
            x["direction"] = "real-core"
        res.setdefault("stats", {})["monotone_class"] = True
        return res
    from .. import shim  # noqa
    from migen import Module
    from litedram.common import LiteDRAMNativePort
    from litedram.frontend.adapter import LiteDRAMNativePortConverter
    from ..ports import Op, MemOracle, NativeMaster
    from ..stub import CoreStub, Store
    from ..core import run_sim
    from ..wholecore import heavy_gap, rand_wemask
    r = random.Random(c["seed"])
    ratio, up = c["ratio"], c["up"]
    aw_core = 10
    sh = ratio.bit_length() - 1
    aw_user = aw_core + sh if up else aw_core - sh

    class DUT(Module):
        def __init__(self):
            self.port_to = LiteDRAMNativePort(c["mode"], aw_core, c["core_dw"])
            self.port_from = LiteDRAMNativePort(c["mode"], aw_user, c["user_dw"])
            self.submodules.conv = LiteDRAMNativePortConverter(self.port_from, self.port_to, c["reverse"])

    dut = DUT()
    ub, cb = c["user_dw"] // 8, c["core_dw"] // 8
    store = Store(cb)
    stub = CoreStub([dut.port_to], store, r, cmd_ready_prob=c["cmd_ready_prob"], extra_lat=tuple(c["extra_lat"]),
                    long_stall=c["long_stall"])

    # byte address of byte i of user word a (reverse swaps the order of the narrow chunks inside the wide word)
    def byte_addr(a, i):
        if up:
            wide, ch = a >> sh, a & (ratio - 1)
            if c["reverse"]:
                ch = ratio - 1 - ch
            return wide * cb + ch * ub + i
        else:
            ch, off = i // cb, i % cb
            if c["reverse"]:
                ch = ratio - 1 - ch
            return (a * ratio + ch) * cb + off

    def init_fn(a):
        return bytes(store.byte(byte_addr(a, i)) for i in range(ub))

    oracle = MemOracle(ub, init=init_fn)
    addrs = gen_addrs(c, r, aw_user)
    ops = []
    for k, a in enumerate(addrs):
        if c["mode"] == "write":
            we = True
        elif c["mode"] == "read":
            we = False
        else:
            we = r.random() < 0.5 if c["order"] != "repeated" else (k % 3 != 2)
        o = Op(heavy_gap(r, c["gap_scale"]), we, a)
        if we:
            o.data = r.getrandbits(8 * ub)
            o.wemask = rand_wemask(r, ub, c["we_style"])
        o.last = int(c["use_last"] and r.random() < 0.2)
        if c.get("group_last") and (k + 1 == len(addrs) or (addrs[k + 1] >> sh) != (a >> sh) or addrs[k + 1] <= a):
            o.last = 1      # a well-behaved master marks the end of each ascending run inside a wide word
        ops.append(o)
    if ops:
        ops[-1].last = 1
    violations = []
    m = NativeMaster(dut.port_from, ops, 0, oracle, c["master_mode"], violations)
    if r.random() < 0.5:
        m.scramble_rng = random.Random(c["seed"] + "/scramble")     # cmd / wdata payload is garbage (or already the next address) while valid is low
    m.use_last = True
    m.strobe_semantics = False
    if r.random() < 0.35:
        m.data_ahead = r.choice([1, 3, 12])      # write data streamed ahead of the commands (fifo-mode masters only)
    state = dict(flush_final=False, t_final=None, flushes=0)

    def flusher():
        yield "passive"
        while True:
            if state["flush_final"]:
                yield dut.port_from.flush.eq(1)
            elif c["flush_prob"] and r.random() < c["flush_prob"]:
                yield dut.port_from.flush.eq(1)
                state["flushes"] += 1
            else:
                yield dut.port_from.flush.eq(0)
            yield

    bound = 3000 + 60 * 30

    def done_fn():
        cyc = m.cycle
        if m.issued_all and not m._cmd_valid and not state["flush_final"]:
            state["flush_final"] = True
            state["t_final"] = cyc
        if state["flush_final"]:
            act = (stub.seq, len(stub.wbeats[0]), len(stub.rbeats[0]), m.rbeats, m.wbeats)
            if act != state.get("act"):
                state["act"] = act
                state["t_act"] = cyc
            # quiescence: nothing pending anywhere and no activity for longer than the stub's longest stall plus the
            # converter's own pipeline (a few cycles per chunk)
            if m.idle() and stub.outstanding() == 0 and cyc - max(state["t_final"], state.get("t_act", 0)) > 340 + 4 * ratio:
                return True
            if cyc - state["t_final"] > bound:
                state["hang"] = True
                return True
        return False

    cycles, reason = run_sim(dut, [stub.process(), m.process(), flusher()], done_fn, 60000, wall_limit=600)
    v = list(violations)
    for e in stub.events:
        v.append(e)
    if state.get("hang") or reason == "cycle-cap":
        v.append(dict(kind="no-progress-after-final-flush", waited=bound, reads_waiting=len(m.rq), writes_waiting=len(m.wq),
                      cmd_stuck=bool(m._cmd_valid), accepted=len(m.accepted), of=len(ops),
                      oldest=(m.rq[0][0].brief() if m.rq else (m.wq[0].brief() if m.wq else None))))
    elif reason == "wall":
        return dict(verdict="inconclusive", why="wall-clock watchdog", violations=[], stats={}, nontrivial=False, signature="")
    else:
        # exactly-once accounting and final store
        nr = sum(1 for o in m.accepted if not o.we)
        nw = sum(1 for o in m.accepted if o.we)
        if m.rbeats != nr:
            v.append(dict(kind="user-read-beat-count", reads=nr, beats=m.rbeats))
        if m.wbeats != nw:
            v.append(dict(kind="user-write-beat-count", writes=nw, beats=m.wbeats))
        core_w = sum(1 for (_, we, _) in stub.accepted[0] if we)
        core_r = sum(1 for (_, we, _) in stub.accepted[0] if not we)
        if len(stub.wbeats[0]) != core_w or len(stub.rbeats[0]) != core_r:
            v.append(dict(kind="controller-side-beat-count", cmds=(core_w, core_r), beats=(len(stub.wbeats[0]), len(stub.rbeats[0]))))
        # final store == oracle, byte by byte, on every touched wide word
        bad = []
        touched = set(store.mem.keys())
        model_bytes = {}
        for a, w in oracle.mem.items():
            if w is None:
                continue
            for i in range(ub):
                if w[i] is not None:
                    model_bytes[byte_addr(a, i)] = w[i]
        for wa in touched:
            for i in range(cb):
                ba = wa * cb + i
                exp = model_bytes.get(ba)
                if exp is None:
                    exp = store.pattern(wa, cb)[i]
                got = store.mem[wa][i]
                if got != exp:
                    bad.append(dict(byte_addr=ba, expected=exp, got=got))
        if bad:
            v.append(dict(kind="final-store-differs-from-model", nbytes=len(bad), first=bad[:4]))
    # coverage facts
    partial = 0
    for (cyc, addr, data, we, valid) in stub.wbeats[0]:
        if valid and we is not None and we != (1 << cb) - 1:
            partial += 1
    raw = 0
    seen_w = set()
    for o in m.accepted:
        wide = o.addr >> sh if up else o.addr
        if o.we:
            seen_w.add(wide)
        elif wide in seen_w:
            raw += 1
    first_nm = first_nonmonotone(ops, ratio) if up else None
    mono = first_nm is None
    st = dict(user_cmds=len(m.accepted), core_cmds=len(stub.accepted[0]), partial_wide_writes=partial, raw_same_wide=raw,
              reads_checked=m.checked_reads, cycles=cycles, flushes=state["flushes"], monotone_class=mono,
              underruns=sum(1 for e in stub.events if e["kind"] == "wdata-underrun"),
              drops=sum(1 for e in stub.events if e["kind"] == "rdata-dropped"))
    for x in v:
        x["monotone_class"] = mono
        x["first_nonmonotone_seq"] = first_nm
        x["witness_seq"] = (x.get("op") or {}).get("seq")
        x["direction"] = "up" if up else "down"
    nontrivial = len(m.accepted) >= 20 and ((partial >= 1 or c["mode"] == "read") if up else len(stub.accepted[0]) >= 2 * len(m.accepted) - 2) \
        and (c["mode"] != "both" or raw >= 1)
    sig = "|".join(str(x) for x in ("up" if up else "down", ratio, c["mode"], c["reverse"], c["order"]))
    return dict(verdict="violated" if v else "held", violations=v[:8], stats=st, nontrivial=bool(nontrivial) or bool(v), signature=sig)


def aggregate(results, cases):
    tot = dict(user_cmds=0, core_cmds=0, partial_wide_writes=0, raw_same_wide=0, reads_checked=0, flushes=0, cycles=0)
    for r in results:
        for k in tot:
            tot[k] += (r.get("stats") or {}).get(k, 0) or 0
    by = {c["name"]: c for c in cases}
    split = dict(up_class_M=0, up_class_U=0, down=0, real_core=0)
    for r in results:
        c = by.get(r["name"])
        st = r.get("stats") or {}
        if not c or not st:
            continue
        if c.get("kind") == "core":
            split["real_core"] += 1
        elif not c["up"]:
            split["down"] += 1
        elif st.get("monotone_class"):
            split["up_class_M"] += 1
        else:
            split["up_class_U"] += 1
    samples = [dict(case=by.get(r["name"]), verdict=r["verdict"], stats=r.get("stats")) for r in results[:3]]
    return dict(observed=tot, finding_split=split, samples=samples)


def summary(cov):
    o = cov["observed"]
    return "  split: %s\n  observed: %d user commands -> %d controller-side commands, %d partial wide writes, %d read-after-write in one wide word, %d reads checked, %d flush pulses" % (
        cov["finding_split"], o["user_cmds"], o["core_cmds"], o["partial_wide_writes"], o["raw_same_wide"], o["reads_checked"], o["flushes"])
