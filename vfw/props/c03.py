"""C03 -- datasheet timing minimums on the DRAM bus.  See DESIGN.md section 3/C03."""
import random

from .. import corecfg

LEVEL = "exploration"
BATCH = 1
BATCH_TIMEOUT = 3000
RULE = ("case = (library module, speedgrade, rate, controller clock, controller settings, workload class, seed); every "
        "ordered pair of DFI commands that a datasheet rule relates is measured in DRAM clocks (phase positions included) "
        "against the requirement recomputed from the module's datasheet table (max(ck, ceil(ns/tCK)), exact fractions, 1 ps "
        "tolerance); non-trivial iff >=20 rule instances were evaluated including >=1 ACT->PRE/PREA (tRAS) and >=1 WR->PRE/"
        "PREA (tWR) or auto-precharge; distinct = distinct (module, speedgrade, rate, clock, class)")
ASSUMPTIONS = [
    "Migen simulator semantics",
    "requirements come from module.get(name) (the datasheet table), never from module.timing_settings",
    "JEDEC WL/burst per memory type: SDR 0/BL-1, DDR&LPDDR 1/2, DDR2 CWL/2, DDR3&DDR4 CWL/4; auto-precharge starts at "
    "max(tACT+tRAS, tRDA) resp. max(tACT+tRAS, tWRA+WL+burst+tWR); where two readings exist the less demanding one is used",
    "only the refresh *interval* handed to the controller is shortened (schedule exploration); tRP/tRFC/... are the module's",
]
MIN_NONTRIVIAL = {"quick": 8, "thorough": 60}
CLASSES = ["cold-rows", "direction-flips", "row-conflict", "bank-sweep", "write-then-conflict", "mixed"]


def cases(tier, seed):
    from .. import modlib
    allc = [m for m in modlib.configs() if modlib.buildable(m)]
    rng = random.Random("C03/%d/%s" % (seed, tier))
    rng.shuffle(allc)
    if tier == "quick":
        # seed-rotated subset, memtype-balanced, DDR4 (slowest) limited
        sel, per = [], {}
        cap = {"SDR": 9, "DDR": 3, "LPDDR": 3, "DDR2": 7, "DDR3": 12, "DDR4": 4}
        for m in allc:
            if per.get(m["memtype"], 0) < cap[m["memtype"]]:
                sel.append(m)
                per[m["memtype"]] = per.get(m["memtype"], 0) + 1
    else:
        sel = allc[:420]
    out = []
    for k, m in enumerate(sel):
        r = random.Random("C03/%d/%s/%d" % (seed, tier, k))
        mem = dict(m)
        cs = corecfg.rand_cs(r, refresh=True)
        cs["refresh_postponing"] = r.choice([1, 1, 2])
        nports = r.choice([1, 2, 2, 3])
        cls = CLASSES[k % len(CLASSES)]
        nops = r.randint(70, 120) // max(1, nports // 2)
        wl = {"class": cls, "nops": nops, "master_mode": "fifo", "hot_rows": r.choice([2, 3]), "hot_cols": 2,
              "wr_frac": r.choice([0.4, 0.5, 0.7]), "gap_scale": 0.5}
        if cls == "bank-sweep":
            wl["nops"] = nops * 2
        cfg = dict(mem=mem, cs=cs, nports=nports, workload=wl, seed="C03/%d/%d" % (seed, k),
                   trefi_override=r.randint(100, 170), max_cycles=40000, sweep=False)
        cfg["name"] = "%03d-%s-%s-%s-%dMHz-%s" % (k, m["cls"], m["speedgrade"], m["rate"].replace(":", "to"),
                                                  round(m["clk_freq"] / 1e6), cls)
        cfg["cost"] = corecfg.cost_of(mem, nports, 2000) * (4 if m["memtype"] == "DDR4" else 1)
        out.append(cfg)
    return out


def run_case(cfg):
    from .. import wholecore as W
    from .. import timing as T
    tr = W.run_case(cfg)
    if tr.reason == "wall":
        return dict(verdict="inconclusive", why="wall-clock watchdog", violations=[], stats={}, nontrivial=False, signature="")
    req, tck_ns, memtype = T.datasheet_requirements(tr.module, tr.phy.nphases)
    chk = T.TimingChecker(req, memtype, tr.phy.nphases, tr.phy.cwl, tr.phy.nranks, 1 << tr.geom.bankbits)
    v, stats = chk.run(tr.ref.cmds)
    ninst = sum(s[0] for s in stats.values())
    rules = {k: dict(instances=s[0], min_slack_tck=s[1]) for k, s in stats.items()}
    has_ras = any(k.startswith("tRAS") for k in stats)
    has_wr = any(k.startswith("tWR ") for k in stats) or any(e["ap"] for e in tr.ref.wr_log)
    st = dict(rule_instances=ninst, rules=rules, requirements_tck={k: v_ for k, v_ in req.items() if not k.startswith("_")},
              tck_ns=float(tck_ns), cmds=len(tr.ref.cmds), cycles=tr.cycles, counts=dict(tr.ref.counts),
              controller_cycles={k: getattr(tr.timing, k) for k in ("tRP", "tRCD", "tWR", "tWTR", "tRFC", "tFAW", "tCCD", "tRRD", "tRC", "tRAS")},
              hang=bool(tr.state["hang"]))
    nontrivial = ninst >= 20 and has_ras and has_wr
    m = cfg["mem"]
    sig = "|".join(str(x) for x in (m["cls"], m.get("speedgrade"), m["rate"], m["clk_freq"], cfg["workload"]["class"]))
    st["history_sample"] = (W_ if "W_" in dir() else W).trace_sample(tr)
    return dict(verdict="violated" if v else "held", violations=v[:12], stats=st, nontrivial=nontrivial, signature=sig)


def aggregate(results, cases):
    rules = {}
    mods = set()
    for r in results:
        st = r.get("stats") or {}
        for k, d in (st.get("rules") or {}).items():
            e = rules.setdefault(k, dict(instances=0, min_slack_tck=None))
            e["instances"] += d["instances"]
            if d["min_slack_tck"] is not None and (e["min_slack_tck"] is None or d["min_slack_tck"] < e["min_slack_tck"]):
                e["min_slack_tck"] = d["min_slack_tck"]
    by = {c["name"]: c for c in cases}
    for c in cases:
        mods.add(c["mem"]["cls"])
    samples = [dict(case=r["name"], mem=by.get(r["name"], {}).get("mem"), verdict=r["verdict"], stats=r.get("stats"))
               for r in results[:2]]
    return dict(rule_instances_by_rule=rules, modules_exercised=sorted(mods), samples=samples,
                not_exercised="LPDDR4/RPC library entries (no whole-core PHY settings for them in this engine)")


def summary(cov):
    tot = sum(d["instances"] for d in cov["rule_instances_by_rule"].values())
    worst = sorted(cov["rule_instances_by_rule"].items(), key=lambda kv: (kv[1]["min_slack_tck"] if kv[1]["min_slack_tck"] is not None else 99))[:6]
    return "  observed: %d rule instances over %d modules; tightest: %s" % (
        tot, len(cov["modules_exercised"]), ", ".join("%s slack=%s (n=%d)" % (k, d["min_slack_tck"], d["instances"]) for k, d in worst))
