"""C03 -- datasheet timing minimums on the DRAM bus.  See DESIGN.md section 3/C03."""
import random

from .. import corecfg

LEVEL = "exploration"
BATCH = 1
BATCH_TIMEOUT = 3000
RULE = ("case = (library module, speedgrade, rate, controller clock, controller settings, workload class, seed); every "
        "ordered pair of DFI commands that a datasheet rule relates is measured in DRAM clocks (phase positions included) "
        "against the requirement recomputed from the module's datasheet table (max(ck, ceil(ns/tCK)), exact fractions, 1 ps "
        "tolerance); non-trivial iff >=20 rule instances were evaluated including >=1 ACT->PRE/PREA (tRAS) and >=1 WR->PRE/"
        "PREA (tWR) or auto-precharge; distinct = distinct (module, speedgrade, rate, clock, class)")
ASSUMPTIONS = [
    "Migen simulator semantics",
    "requirements come from module.get(name) (the datasheet table), never from module.timing_settings",
    "JEDEC WL/burst per memory type: SDR 0/BL-1, DDR&LPDDR 1/2, DDR2 CWL/2, DDR3&DDR4 CWL/4; auto-precharge starts at "
    "max(tACT+tRAS, tRDA) resp. max(tACT+tRAS, tWRA+WL+burst+tWR); where two readings exist the less demanding one is used",
    "only the refresh *interval* handed to the controller is shortened (schedule exploration); tRP/tRFC/... are the module's",
]
MIN_NONTRIVIAL = {"quick": 8, "thorough": 60}
CLASSES = ["cold-rows", "direction-flips", "row-conflict", "bank-sweep", "write-then-conflict", "mixed", "write-pair-sweep"]


def cases(tier, seed):
    from .. import modlib
    allc = [m for m in modlib.configs() if modlib.buildable(m)]
    rng = random.Random("C03/%d/%s" % (seed, tier))
    rng.shuffle(allc)
    if tier == "quick":
        # seed-rotated subset, memtype-balanced, DDR4 (slowest) limited
        sel, per = [], {}
        cap = {"SDR": 9, "DDR": 3, "LPDDR": 3, "DDR2": 7, "DDR3": 12, "DDR4": 4}
        for m in allc:
            if per.get(m["memtype"], 0) < cap[m["memtype"]]:
                sel.append(m)
                per[m["memtype"]] = per.get(m["memtype"], 0) + 1
    else:
        sel = allc[:420]
    tight = tight_clock_configs(tier, seed)
    out = []
    for k, m in enumerate(sel + tight):
        r = random.Random("C03/%d/%s/%d" % (seed, tier, k))
        mem = dict(m)
        cs = corecfg.rand_cs(r, refresh=True)
        cs["refresh_postponing"] = r.choice([1, 1, 2])
        nports = r.choice([1, 2, 2, 3])
        cls = CLASSES[k % len(CLASSES)]
        if m.get("tight"):
            # workload that exercises the timing whose rounding slack was minimised; explicit precharges in half of them
            cls = {"tWR": "write-then-conflict", "tWTR": "write-then-conflict", "tRP": "row-conflict", "tRCD": "cold-rows",
                   "tRAS": "cold-rows", "tRFC": "mixed"}[m["tight"]]
            cs["with_auto_precharge"] = bool(k % 2) and m["tight"] not in ("tWR", "tWTR")     # explicit precharges for these
            nports = r.choice([1, 2])
        nops = r.randint(70, 120) // max(1, nports // 2)
        wl = {"class": cls, "nops": nops, "master_mode": "fifo", "hot_rows": r.choice([2, 3]), "hot_cols": 2,
              "wr_frac": r.choice([0.4, 0.5, 0.7]), "gap_scale": 0.5}
        if cls == "bank-sweep":
            wl["nops"] = nops * 2
        cfg = dict(mem=mem, cs=cs, nports=nports, workload=wl, seed="C03/%d/%d" % (seed, k),
                   trefi_override=r.randint(100, 170), max_cycles=40000, sweep=False)
        cfg["name"] = "%03d-%s-%s-%s-%dMHz-%s%s" % (k, m["cls"], m["speedgrade"], m["rate"].replace(":", "to"),
                                                    round(m["clk_freq"] / 1e6), cls, "-tight-" + m["tight"] if m.get("tight") else "")
        cfg["cost"] = corecfg.cost_of(mem, nports, 2000) * (4 if m["memtype"] == "DDR4" else 1)
        out.append(cfg)
    return out


def tight_clock_configs(tier, seed):
    """Controller clocks at which the rounding of one datasheet timing X leaves (almost) no slack: with the library's phase
    margin, cycles(X) = ceil(ns/T + 1 - 1/n); choosing ns/T = k - 1 + 1/n - eps makes the argument of the ceiling just
    below an integer, so a gate that is one controller cycle (or one tCK) short in the controller shows on the bus
    instead of hiding in the rounding."""
    from fractions import Fraction
    from .. import modlib
    from litedram import modules as M
    rng = random.Random("C03/tight/%d/%s" % (seed, tier))
    out = []
    per_type = 1 if tier == "quick" else 4
    names = ("tWR", "tRP", "tRCD", "tRAS", "tWTR", "tRFC")
    for mt in ("SDR", "DDR", "LPDDR", "DDR2", "DDR3", "DDR4"):
        classes = modlib.module_classes((mt,))
        rng.shuffle(classes)
        for cls in classes[:per_type]:
            sgs = modlib.speedgrades(cls)
            sg = rng.choice(sgs)
            for rate in modlib.RATES[mt]:
                n = int(rate.split(":")[1])
                clocks = modlib.dram_clocks_mhz(cls, sg)
                hi, lo = max(clocks) * 1e6 / n, min(clocks) * 1e6 / n * 0.8
                try:
                    kw = {"speedgrade": sg} if sg else {}
                    mod = cls(hi, rate, **kw)
                except Exception:
                    continue
                xs = list(names)
                rng.shuffle(xs)
                if tier == "quick":
                    # write recovery is always among them (it is the only timing the controller composes from three parts:
                    # write latency + tWR + tCCD), plus one other
                    xs = ["tWR"] + [x for x in xs if x != "tWR"][:1]
                for x in xs:
                    try:
                        d = mod.get(x, getattr(mod.timing_settings, "fine_refresh_mode", None)) if x == "tRFC" else mod.get(x)
                        if d is None or not d[1]:
                            continue
                        ns = Fraction(float(d[1])).limit_denominator(10 ** 6)
                    except (TypeError, ValueError, KeyError):
                        continue      # table entry in a form this helper does not handle: no tight case for it
                    cands = []
                    for k in range(1, 400):
                        f = (Fraction(k - 1) + Fraction(1, n) - Fraction(1, 50)) / ns * 10 ** 9      # ns/T = k-1+1/n-0.02
                        if lo <= f <= hi:
                            cands.append(float(f))
                    if not cands:
                        continue
                    if x in ("tWR", "tWTR") and mt in ("DDR2", "DDR3", "DDR4"):
                        # prefer clocks whose default CWL is not a multiple of the phase count (write latency in
                        # controller cycles is then a rounded value)
                        from litedram.common import get_default_cl_cwl
                        odd = []
                        for f_ in cands:
                            try:
                                if get_default_cl_cwl(mt, 1 / (n * f_))[1] % n:
                                    odd.append(f_)
                            except Exception:
                                pass
                        cands = odd or cands
                    f = rng.choice(cands[-3:])            # among the fastest clocks of the usable range
                    m = dict(kind="module", cls=cls.__name__, speedgrade=sg, rate=rate, clk_freq=f, memtype=mt, tight=x)
                    if modlib.buildable(m):
                        out.append(m)
    if tier == "quick":
        rng.shuffle(out)
        keep, ddr4 = [], 0
        for m in out:
            if m["memtype"] == "DDR4":
                ddr4 += 1
                if ddr4 > 2:
                    continue
            keep.append(m)
        out = keep[:18]
    return out


def run_case(cfg):
    from .. import wholecore as W
    from .. import timing as T
    tr = W.run_case(cfg)
    if tr.reason == "wall":
        return dict(verdict="inconclusive", why="wall-clock watchdog", violations=[], stats={}, nontrivial=False, signature="")
    req, tck_ns, memtype = T.datasheet_requirements(tr.module, tr.phy.nphases)
    chk = T.TimingChecker(req, memtype, tr.phy.nphases, tr.phy.cwl, tr.phy.nranks, 1 << tr.geom.bankbits)
    v, stats = chk.run(tr.ref.cmds)
    ninst = sum(s[0] for s in stats.values())
    rules = {k: dict(instances=s[0], min_slack_tck=s[1]) for k, s in stats.items()}
    has_ras = any(k.startswith("tRAS") for k in stats)
    has_wr = any(k.startswith("tWR ") for k in stats) or any(e["ap"] for e in tr.ref.wr_log)
    st = dict(rule_instances=ninst, rules=rules, requirements_tck={k: v_ for k, v_ in req.items() if not k.startswith("_")},
              tck_ns=float(tck_ns), cmds=len(tr.ref.cmds), cycles=tr.cycles, counts=dict(tr.ref.counts),
              controller_cycles={k: getattr(tr.timing, k) for k in ("tRP", "tRCD", "tWR", "tWTR", "tRFC", "tFAW", "tCCD", "tRRD", "tRC", "tRAS")},
              hang=bool(tr.state["hang"]))
    nontrivial = ninst >= 20 and has_ras and has_wr
    m = cfg["mem"]
    sig = "|".join(str(x) for x in (m["cls"], m.get("speedgrade"), m["rate"], m["clk_freq"], cfg["workload"]["class"]))
    st["tight_clock_for"] = m.get("tight")
    st["history_sample"] = (W_ if "W_" in dir() else W).trace_sample(tr)
    return dict(verdict="violated" if v else "held", violations=v[:12], stats=st, nontrivial=nontrivial, signature=sig)


def aggregate(results, cases):
    rules = {}
    mods = set()
    for r in results:
        st = r.get("stats") or {}
        for k, d in (st.get("rules") or {}).items():
            e = rules.setdefault(k, dict(instances=0, min_slack_tck=None))
            e["instances"] += d["instances"]
            if d["min_slack_tck"] is not None and (e["min_slack_tck"] is None or d["min_slack_tck"] < e["min_slack_tck"]):
                e["min_slack_tck"] = d["min_slack_tck"]
    by = {c["name"]: c for c in cases}
    for c in cases:
        mods.add(c["mem"]["cls"])
    samples = [dict(case=r["name"], mem=by.get(r["name"], {}).get("mem"), verdict=r["verdict"], stats=r.get("stats"))
               for r in results[:2]]
    return dict(rule_instances_by_rule=rules, modules_exercised=sorted(mods), samples=samples,
                not_exercised="LPDDR4/RPC library entries (no whole-core PHY settings for them in this engine)")


def summary(cov):
    tot = sum(d["instances"] for d in cov["rule_instances_by_rule"].values())
    worst = sorted(cov["rule_instances_by_rule"].items(), key=lambda kv: (kv[1]["min_slack_tck"] if kv[1]["min_slack_tck"] is not None else 99))[:6]
    return "  observed: %d rule instances over %d modules; tightest: %s" % (
        tot, len(cov["modules_exercised"]), ", ".join("%s slack=%s (n=%d)" % (k, d["min_slack_tck"], d["instances"]) for k, d in worst))
