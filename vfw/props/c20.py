"""C20 -- LPDDR4/LPDDR5 PHY translate each DFI command into the matching CA sequence.  See DESIGN.md section 3/C20."""
import random

LEVEL = "exploration"
BATCH = 4
BATCH_TIMEOUT = 3000
RULE = ("level 1: LPDDR4 and LPDDR5 DFIPhaseAdapter alone, random DFI phases (every command encoding, every address / bank bit "
        "walked and randomised, masked and unmasked write, cs_n on/off): an independent JEDEC decoder turns the adapter's CS/CA "
        "words back into (operation, bank, row | column, AP/AB, MA, OP) which must equal the DFI command; non-commands must "
        "give valid=0 and all-DESELECT.  level 2: LPDDR4 CommandsPipeline (8 adapters, default and extended overlap check): "
        "random command streams with every spacing 1..8 and bursts; the decoded serial CS/CA stream must contain exactly the "
        "commands that do not fall inside the 4-slot window of a command actually emitted earlier, each at slot "
        "8*cycle + phase + constant latency, nothing else non-idle on CS.  level 3: the same oracle on the real LPDDR4PHY class "
        "(simulation pads) observed at its unserialized .out CS/CA words.  level 4: the real LPDDR5PHY class (simulation pads, "
        "WCK:CK 2 and 4, masked/unmasked write): random DFI streams incl. back-to-back commands; each command not overlapping "
        "the second half of the command accepted one cycle earlier must appear as (first half in its own cycle, second half in "
        "the next) and decode to the DFI operation, with the WCK-sync bits the PHY's own sync state requires; a command in the "
        "cycle right after an accepted one is the only thing suppressed; nothing else non-idle on CS/CA.  non-trivial iff >=200 commands were decoded and "
        "every command type and every overlap distance 1..3 was seen; distinct = distinct (level, variant, seed)")
ASSUMPTIONS = [
    "Migen simulator semantics",
    "LPDDR4 (JESD209-4) and LPDDR5 (JESD209-5) command truth tables as transcribed in this file's decoders",
    "DFI conventions documented in the adapters: ZQC + bank selects MPC / MRR (/ NOP), MRS carries MA in bank and OP in address",
]
MIN_NONTRIVIAL = {"quick": 6, "thorough": 20}

DFI_CMDS = {  # name -> (cas, ras, we)
    "NOP": (0, 0, 0), "ACT": (0, 1, 0), "RD": (1, 0, 0), "WR": (1, 0, 1), "PRE": (0, 1, 1), "REF": (1, 1, 0), "ZQC": (0, 0, 1), "MRS": (1, 1, 1)}


def cases(tier, seed):
    out = []
    n1 = 4 if tier == "quick" else 16
    for k in range(n1):
        for std in ("lpddr4", "lpddr5"):
            for mw in (0, 1, 2):
                # mw 2: masked_write given as a Signal (the dynamic form the adapters document) that changes at random
                if mw == 2 and k % 2:
                    continue
                out.append(dict(level=1, std=std, masked_write=mw, n=1500 if tier == "quick" else 5000,
                                seed="C20/1/%d/%s/%d/%d" % (seed, std, mw, k), name="L1-%s-mw%s-%d" % (std, ["0", "1", "dyn"][mw], k), cost=2))
    n2 = 10 if tier == "quick" else 60
    for k in range(n2):
        out.append(dict(level=2, extended=bool(k % 2), cycles=300 if tier == "quick" else 900, density=[0.08, 0.2, 0.5, 0.9][k % 4],
                        mw_dyn=bool(k % 3 == 2), seed="C20/2/%d/%d" % (seed, k),
                        name="L2-%s-%d%s" % ("ext" if k % 2 else "basic", k, "-mwdyn" if k % 3 == 2 else ""), cost=10))
    n3 = 6 if tier == "quick" else 30
    for k in range(n3):
        out.append(dict(level=3, extended=bool(k % 2), cycles=200 if tier == "quick" else 600, density=[0.05, 0.1, 0.3][k % 3],
                        clk=[50e6, 100e6, 200e6][k % 3], mw_dyn=bool(k % 2 == 0 or k % 3 == 1), seed="C20/3/%d/%d" % (seed, k),
                        name="L3-phy-%s-%d%s" % ("ext" if k % 2 else "basic", k, "-mwdyn" if (k % 2 == 0 or k % 3 == 1) else ""), cost=20))
    n4 = 8 if tier == "quick" else 40
    for k in range(n4):
        out.append(dict(level=4, masked_write=k % 2, wck_ck_ratio=[2, 4][(k // 2) % 2], cycles=1500 if tier == "quick" else 5000,
                        density=[0.1, 0.3, 0.6, 0.95][k % 4], clk=[50e6, 100e6][(k // 4) % 2], seed="C20/4/%d/%d" % (seed, k),
                        name="L4-lp5phy-mw%d-r%d-%d" % (k % 2, [2, 4][(k // 2) % 2], k), cost=15))
    return out


# ------------------------------------------------------------------------------------------------ LPDDR4 decoder
def lp4_small(ca_h, ca_l):
    """ca_h / ca_l: 6-bit CA values latched with CS high / on the following clock.  Returns (name, fields)."""
    b = lambda v, i: (v >> i) & 1
    key = tuple(b(ca_h, i) for i in range(5))
    if key[0] == 1 and key[1] == 0:
        return "ACT-1", dict(r12_15=(ca_h >> 2) & 0xF, ba=ca_l & 7, r16=b(ca_l, 3), r10_11=(ca_l >> 4) & 3)
    if key[0] == 1 and key[1] == 1:
        return "ACT-2", dict(r6_9=(ca_h >> 2) & 0xF, r0_5=ca_l & 0x3F)
    table = {(0, 1, 1, 0, 0): "MRW-1", (0, 1, 1, 0, 1): "MRW-2", (0, 1, 1, 1, 0): "MRR-1", (0, 0, 0, 1, 0): "REFRESH", (0, 0, 1, 0, 0): "WRITE-1",
             (0, 0, 1, 1, 0): "MASK WRITE-1", (0, 1, 0, 0, 0): "READ-1", (0, 1, 0, 0, 1): "CAS-2", (0, 0, 0, 0, 1): "PRECHARGE", (0, 0, 0, 0, 0): "MPC"}
    name = table.get(key)
    if name is None:
        return "RESERVED", dict(ca_h=ca_h, ca_l=ca_l)
    f = {}
    if name == "MRW-1":
        f = dict(op7=b(ca_h, 5), ma=ca_l & 0x3F)
    elif name == "MRW-2":
        f = dict(op6=b(ca_h, 5), op0_5=ca_l & 0x3F)
    elif name == "MRR-1":
        f = dict(ma=ca_l & 0x3F)
    elif name in ("REFRESH", "PRECHARGE"):
        f = dict(ab=b(ca_h, 5), ba=ca_l & 7)
    elif name in ("WRITE-1", "MASK WRITE-1", "READ-1"):
        f = dict(bl=b(ca_h, 5), ba=ca_l & 7, c9=b(ca_l, 4), ap=b(ca_l, 5))
    elif name == "CAS-2":
        f = dict(c8=b(ca_h, 5), c2_7=ca_l & 0x3F)
    elif name == "MPC":
        f = dict(op6=b(ca_h, 5), op0_5=ca_l & 0x3F)
    return name, f


def lp4_full(s1, s2):
    """two small commands (or None, small) -> full command tuple comparable with the DFI command"""
    n2, f2 = s2
    if s1 is None:
        if n2 == "PRECHARGE":
            return ("PRE", f2["ba"], f2["ab"])
        if n2 == "REFRESH":
            return ("REF", f2["ba"], f2["ab"])
        if n2 == "MPC":
            return ("MPC", (f2["op6"] << 6) | f2["op0_5"])
        return ("ILLEGAL-SINGLE", n2)
    n1, f1 = s1
    if n1 == "ACT-1" and n2 == "ACT-2":
        row = f2["r0_5"] | (f2["r6_9"] << 6) | (f1["r10_11"] << 10) | (f1["r12_15"] << 12) | (f1["r16"] << 16)
        return ("ACT", f1["ba"], row)
    if n1 in ("READ-1", "WRITE-1", "MASK WRITE-1") and n2 == "CAS-2":
        col = (f2["c2_7"] << 2) | (f2["c8"] << 8) | (f1["c9"] << 9)
        return ({"READ-1": "RD", "WRITE-1": "WR", "MASK WRITE-1": "MWR"}[n1], f1["ba"], col, f1["ap"], f1["bl"])
    if n1 == "MRW-1" and n2 == "MRW-2":
        return ("MRW", f1["ma"], f2["op0_5"] | (f2["op6"] << 6) | (f1["op7"] << 7))
    if n1 == "MRR-1" and n2 == "CAS-2":
        return ("MRR", f1["ma"])
    return ("ILLEGAL-PAIR", n1, n2)


def lp4_expected(cmd, bank, addr, masked_write, cs_n=0):
    """DFI command -> the full LPDDR4 command the property demands (None = nothing may be emitted)"""
    if cs_n:
        return None
    if cmd == "ACT":
        return ("ACT", bank & 7, addr & 0x1FFFF)
    if cmd in ("RD", "WR"):
        col = addr & 0x3FC       # C2..C9
        return ("RD" if cmd == "RD" else ("MWR" if masked_write else "WR"), bank & 7, col, (addr >> 10) & 1, 0)
    if cmd == "PRE":
        return ("PRE", bank & 7, (addr >> 10) & 1)
    if cmd == "REF":
        return ("REF", bank & 7, (addr >> 10) & 1)
    if cmd == "MRS":
        return ("MRW", bank & 0x3F, addr & 0xFF)
    if cmd == "ZQC":
        if bank == 0:
            return ("MPC", addr & 0x7F)
        if bank == 1:
            return ("MRR", addr & 0x3F)
        return None
    return None


# ------------------------------------------------------------------------------------------------ LPDDR5 decoder
def lp5_small(r, f):
    """r / f: 7-bit CA on the rising / falling CK edge of a CK cycle with CS high"""
    b = lambda v, i: (v >> i) & 1
    k = tuple(b(r, i) for i in range(7))
    if k[:3] == (1, 1, 1):
        return "ACT-1", dict(r14_17=(r >> 3) & 0xF, ba=f & 0xF, r11_13=(f >> 4) & 7)
    if k[:3] == (1, 1, 0):
        return "ACT-2", dict(r7_10=(r >> 3) & 0xF, r0_6=f & 0x7F)
    if k[:3] in ((0, 1, 0), (0, 1, 1), (1, 0, 0)):
        name = {(0, 1, 0): "MWR", (0, 1, 1): "WR16", (1, 0, 0): "RD16"}[k[:3]]
        return name, dict(c0=b(r, 3), c3_5=(r >> 4) & 7, ba=f & 0xF, c1_2=(f >> 4) & 3, ap=b(f, 6))
    if k[:3] == (1, 0, 1):
        return "RD32", {}
    if k[:4] == (0, 0, 1, 1):
        return "CAS", dict(ws_wr=b(r, 4), ws_rd=b(r, 5), ws_fs=b(r, 6), f=f)
    if k[:4] == (0, 0, 1, 0):
        return "WR32", {}
    table = {(0, 0, 0, 1, 1, 1, 1): "PRE", (0, 0, 0, 1, 1, 1, 0): "REF", (0, 0, 0, 1, 1, 0, 1): "MRW-1", (0, 0, 0, 1, 1, 0, 0): "MRR",
             (0, 0, 0, 0, 0, 0, 0): "NOP", (0, 0, 0, 0, 0, 0, 1): "PDE", (0, 0, 0, 1, 0, 1, 1): "SRE", (0, 0, 0, 1, 0, 1, 0): "SRX",
             (0, 0, 0, 0, 0, 1, 1): "WFF", (0, 0, 0, 0, 0, 1, 0): "RFF", (0, 0, 0, 0, 1, 0, 1): "RDC"}
    if k in table:
        n = table[k]
        if n == "PRE":
            return n, dict(ba=f & 0xF, ab=b(f, 6))
        if n == "REF":
            return n, dict(ba=f & 7, rfm=b(f, 3), sb0=b(f, 4), ab=b(f, 6))
        if n in ("MRW-1", "MRR"):
            return n, dict(ma=f & 0x7F)
        return n, dict(f=f)
    if k[:6] == (0, 0, 0, 1, 0, 0):
        return "MRW-2", dict(op=(f & 0x7F) | (b(r, 6) << 7))
    if k[:6] == (0, 0, 0, 0, 1, 1):
        return "MPC", dict(op=(f & 0x7F) | (b(r, 6) << 7))
    return "RESERVED", dict(r=r, f=f)


def lp5_full(s1, s2):
    n2, f2 = s2
    if s1 is None:
        if n2 == "PRE":
            return ("PRE", f2["ba"], f2["ab"])
        if n2 == "REF":
            return ("REF", f2["ba"], f2["ab"], f2["rfm"], f2["sb0"])
        if n2 == "MPC":
            return ("MPC", f2["op"])
        if n2 == "NOP":
            return ("NOP",)
        return ("ILLEGAL-SINGLE", n2)
    n1, f1 = s1
    if n1 == "ACT-1" and n2 == "ACT-2":
        return ("ACT", f1["ba"], f2["r0_6"] | (f2["r7_10"] << 7) | (f1["r11_13"] << 11) | (f1["r14_17"] << 14))
    if n1 == "CAS" and n2 in ("RD16", "WR16", "MWR"):
        col = f2["c0"] | (f2["c1_2"] << 1) | (f2["c3_5"] << 3)
        return ({"RD16": "RD", "WR16": "WR", "MWR": "MWR"}[n2], f2["ba"], col, f2["ap"], (f1["ws_wr"], f1["ws_rd"], f1["ws_fs"]), f1["f"])
    if n1 == "CAS" and n2 == "MRR":
        return ("MRR", f2["ma"], (f1["ws_wr"], f1["ws_rd"], f1["ws_fs"]))
    if n1 == "MRW-1" and n2 == "MRW-2":
        return ("MRW", f1["ma"], f2["op"])
    return ("ILLEGAL-PAIR", n1, n2)


def lp5_expected(cmd, bank, addr, masked_write, sync_done, cs_n=0):
    if cs_n:
        return None
    if cmd == "ACT":
        return ("ACT", bank & 0xF, addr & 0x3FFFF)
    if cmd in ("RD", "WR"):
        col = (addr >> 4) & 0x3F
        ws = (0, 0, 0) if sync_done else ((0, 1, 0) if cmd == "RD" else (1, 0, 0))
        return ("RD" if cmd == "RD" else ("MWR" if masked_write else "WR"), bank & 0xF, col, (addr >> 10) & 1, ws, 0)
    if cmd == "PRE":
        return ("PRE", bank & 0xF, (addr >> 10) & 1)
    if cmd == "REF":
        return ("REF", bank & 7, (addr >> 10) & 1, 0, 0)
    if cmd == "MRS":
        return ("MRW", bank & 0x7F, addr & 0xFF)
    if cmd == "ZQC":
        if bank == 0:
            return ("MPC", (addr & 0xFF) if addr != 0 else 0b10000110)
        if bank == 1:
            return ("MRR", addr & 0x7F, (0, 0, 0) if sync_done else (0, 1, 0))
        if bank == 2:
            return ("NOP",)
        return None
    return None


# ------------------------------------------------------------------------------------------------ level 1
def rand_phase(r, abits, bbits, k):
    cmd = r.choice(list(DFI_CMDS))
    mode = k % 4
    if mode == 0:
        addr, bank = r.getrandbits(abits), r.getrandbits(bbits)
    elif mode == 1:
        addr, bank = 1 << r.randrange(abits), 1 << r.randrange(bbits)
    elif mode == 2:
        addr, bank = ((1 << abits) - 1) ^ (1 << r.randrange(abits)), ((1 << bbits) - 1) ^ (1 << r.randrange(bbits))
    else:
        addr, bank = r.choice([0, (1 << abits) - 1]), r.choice([0, 1, 2, 3, (1 << bbits) - 1])
    if cmd == "ZQC" and r.random() < 0.7:
        bank = r.choice([0, 1, 2])
    return cmd, bank, addr


def run_level1(c):
    from .. import shim  # noqa
    from migen import Module, Signal
    from litedram.phy.dfi import Interface
    from ..core import run_sim
    r = random.Random(c["seed"])
    lp4 = c["std"] == "lpddr4"
    abits, bbits = (17, 6) if lp4 else (18, 7)
    if lp4:
        from litedram.phy.lpddr4.commands import DFIPhaseAdapter
    else:
        from litedram.phy.lpddr5.commands import DFIPhaseAdapter

    class DUT(Module):
        def __init__(self):
            self.dfi = Interface(addressbits=abits, bankbits=bbits, nranks=1, databits=16, nphases=1)
            self.mw = Signal()
            self.submodules.ad = DFIPhaseAdapter(self.dfi.p0, masked_write=self.mw if c["masked_write"] == 2 else bool(c["masked_write"]))

    dut = DUT()
    dyn = c["masked_write"] == 2
    p, ad = dut.dfi.p0, dut.ad
    v = []
    seen = {}
    state = dict(done=False)

    def main():
        for k in range(c["n"]):
            cmd, bank, addr = rand_phase(r, abits, bbits, k)
            cas, ras, we = DFI_CMDS[cmd]
            cs_n = 1 if r.random() < 0.08 else 0
            sync_done = r.getrandbits(1)
            stm = [p.cs_n.eq(cs_n), p.cas_n.eq(1 - cas), p.ras_n.eq(1 - ras), p.we_n.eq(1 - we), p.bank.eq(bank), p.address.eq(addr)]
            if not lp4:
                stm.append(ad.wck_sync_done.eq(sync_done))
            mw_now = r.getrandbits(1) if dyn else c["masked_write"]
            if dyn:
                stm.append(dut.mw.eq(mw_now))
            yield stm
            yield
            sigs = [ad.valid, ad.cs] + [ad.ca[i] for i in range(4)]
            vals = yield sigs
            valid, cs, ca = vals[0], vals[1], vals[2:]
            if lp4:
                exp = lp4_expected(cmd, bank, addr, mw_now, cs_n)
                cs_bits = [(cs >> i) & 1 for i in range(4)]
                # well-formed: CS may only be high in slots 0 and 2 (first half of a small command)
                if cs_bits[1] or cs_bits[3]:
                    v.append(dict(kind="cs-high-in-second-half", cmd=cmd, cs=cs))
                    continue
                s1 = lp4_small(ca[0], ca[1]) if cs_bits[0] else None
                s2 = lp4_small(ca[2], ca[3]) if cs_bits[2] else None
                got = None if (s1 is None and s2 is None) else (lp4_full(s1, s2) if s2 is not None else ("FIRST-SLOT-ONLY", s1[0]))
            else:
                exp = lp5_expected(cmd, bank, addr, mw_now, sync_done, cs_n)
                cs_bits = [(cs >> i) & 1 for i in range(2)]
                s1 = lp5_small(ca[0], ca[1]) if cs_bits[0] else None
                s2 = lp5_small(ca[2], ca[3]) if cs_bits[1] else None
                got = None if (s1 is None and s2 is None) else (lp5_full(s1, s2) if s2 is not None else ("FIRST-SLOT-ONLY", s1[0]))
            if exp is None:
                if valid or got is not None or any(ca):
                    v.append(dict(kind="non-command-not-idle", dfi=dict(cmd=cmd, bank=bank, addr=hex(addr), cs_n=cs_n), valid=valid, decoded=got,
                                  ca=[hex(x) for x in ca]))
            else:
                seen[exp[0]] = seen.get(exp[0], 0) + 1
                if not valid:
                    v.append(dict(kind="command-not-flagged-valid", dfi=dict(cmd=cmd, bank=bank, addr=hex(addr))))
                if got != exp and len(v) < 12:
                    v.append(dict(kind="decoded-command-differs", dfi=dict(cmd=cmd, bank=bank, addr=hex(addr), masked_write=c["masked_write"]),
                                  expected=exp, decoded=got, cs=cs, ca=[hex(x) for x in ca]))
        state["done"] = True

    run_sim(dut, [main()], lambda: state["done"], 10 * c["n"] + 100, wall_limit=900)
    kinds_needed = {"ACT", "RD", "PRE", "REF", "MRW", "MPC", "MRR"} | ({"MWR", "WR"} if dyn else {"MWR" if c["masked_write"] else "WR"})
    st = dict(commands_decoded=sum(seen.values()), by_type=seen)
    nontrivial = st["commands_decoded"] >= 200 and kinds_needed <= set(seen)
    return dict(verdict="violated" if v else "held", violations=v[:10], stats=st, nontrivial=bool(nontrivial) or bool(v),
                signature="L1|%s|%d|%s" % (c["std"], c["masked_write"], c["seed"]))


# ------------------------------------------------------------------------------------------------ level 2
def run_level2(c):
    from .. import shim  # noqa
    from migen import Module, Signal
    from litedram.phy.dfi import Interface
    from litedram.phy.lpddr4.commands import DFIPhaseAdapter
    from litedram.phy.utils import CommandsPipeline
    from ..core import run_sim
    r = random.Random(c["seed"])
    NPH = 8

    class DUT(Module):
        def __init__(self):
            self.dfi = Interface(addressbits=17, bankbits=6, nranks=1, databits=16, nphases=NPH)
            self.mw = Signal(reset=1)
            adapters = [DFIPhaseAdapter(ph, masked_write=self.mw if c.get("mw_dyn") else True) for ph in self.dfi.phases]
            self.submodules += adapters
            self.submodules.pipe = CommandsPipeline(adapters, cs_ser_width=NPH, ca_ser_width=NPH, ca_nbits=6, cmd_nphases_span=4,
                                                    extended_overlaps_check=c["extended"])

    class PHYDUT(Module):
        """level 3: the complete LPDDR4PHY command path, observed at its unserialized `.out` CS/CA words"""
        def __init__(self):
            from litedram.phy.lpddr4.basephy import LPDDR4PHY
            from litedram.phy.lpddr4.simphy import LPDDR4SimulationPads
            from litedram.phy.utils import Latency
            pads = LPDDR4SimulationPads()
            self.submodules += pads
            self.mw = Signal(reset=1)
            self.submodules.phy = LPDDR4PHY(pads, sys_clk_freq=c.get("clk", 50e6), ser_latency=Latency(sys=1), des_latency=Latency(sys=2),
                                            phytype="VerifLPDDR4", masked_write=self.mw if c.get("mw_dyn") else True,
                                            extended_overlaps_check=c["extended"])
            self.dfi = self.phy.dfi

            class _P:
                pass
            self.pipe = _P()
            self.pipe.cs = self.phy.out.cs
            self.pipe.ca = self.phy.out.ca

    dut = PHYDUT() if c.get("level") == 3 else DUT()
    sent = []      # (slot, cmd, bank, addr)
    cs_stream, ca_stream = [], []
    state = dict(done=False)
    ncyc = c["cycles"]

    mw_at = {}     # slot -> value of the (dynamic) masked_write selection in the cycle the command was presented

    def main():
        for k in range(ncyc + 6):
            stm = []
            mw_now = r.getrandbits(1) if c.get("mw_dyn") else 1
            if c.get("mw_dyn"):
                stm.append(dut.mw.eq(mw_now))
            for ph in range(NPH):
                p = dut.dfi.phases[ph]
                mw_at[k * NPH + ph] = mw_now
                if k < ncyc and r.random() < c["density"]:
                    cmd, bank, addr = rand_phase(r, 17, 6, r.randrange(4))
                    if cmd == "ZQC":
                        bank = r.choice([0, 1])
                    if cmd == "NOP":
                        cmd = "ACT"
                    cas, ras, we = DFI_CMDS[cmd]
                    sent.append((k * NPH + ph, cmd, bank, addr))
                    stm += [p.cs_n.eq(0), p.cas_n.eq(1 - cas), p.ras_n.eq(1 - ras), p.we_n.eq(1 - we), p.bank.eq(bank), p.address.eq(addr)]
                else:
                    stm += [p.cs_n.eq(1), p.cas_n.eq(1), p.ras_n.eq(1), p.we_n.eq(1)]
            yield stm
            yield
            vals = yield [dut.pipe.cs] + list(dut.pipe.ca)
            for i in range(NPH):
                cs_stream.append((vals[0] >> i) & 1)
                ca_stream.append(sum((((vals[1 + b] >> i) & 1) << b) for b in range(6)))
        state["done"] = True

    run_sim(dut, [main()], lambda: state["done"], 20 * ncyc + 200, wall_limit=900)
    # ---- decode the serial stream: CS high marks the first half of a small command
    smalls = {}
    v = []
    for s in range(len(cs_stream) - 1):
        if cs_stream[s]:
            if cs_stream[s + 1]:
                v.append(dict(kind="cs-high-on-two-consecutive-slots", slot=s))
            smalls[s] = lp4_small(ca_stream[s], ca_stream[s + 1])
    # group into full commands: a first-half command at s pairs with s+2; single commands sit at their slot+2
    decoded = {}   # base slot -> full command
    used = set()
    for s in sorted(smalls):
        if s in used:
            continue
        name = smalls[s][0]
        if name in ("ACT-1", "READ-1", "WRITE-1", "MASK WRITE-1", "MRW-1", "MRR-1"):
            if s + 2 in smalls:
                decoded[s] = lp4_full(smalls[s], smalls[s + 2])
                used.add(s + 2)
            else:
                decoded[s] = ("INCOMPLETE", name)
        else:
            decoded[s - 2] = lp4_full(None, smalls[s])
    # ---- expected: sequential emission rule of the property
    emitted = {}
    last_emitted = -10
    suppressed = []
    for (slot, cmd, bank, addr) in sent:
        if slot - last_emitted < 4:
            suppressed.append(slot)
            continue
        emitted[slot] = lp4_expected(cmd, bank, addr, mw_at.get(slot, 1))
        last_emitted = slot
    # ---- constant latency
    lat = None
    if decoded and emitted:
        # one constant latency for the whole run: the candidate that explains the most emitted commands (must be a majority)
        best = (0, None)
        for cand in range(0, 3 * NPH):
            n = sum(1 for s_, cmdx in emitted.items() if decoded.get(s_ + cand) == cmdx)
            if n > best[0]:
                best = (n, cand)
        # (the basic check may legitimately... not emit many of them -- see the open finding -- so no majority is required,
        # only a clear winner)
        if best[0] >= 10:
            lat = best[1]
    dists = set()
    prev = None
    for (slot, *_rest) in sent:
        if prev is not None and slot - prev < 4:
            dists.add(slot - prev)
        prev = slot
    over_suppressed = []
    # chain bookkeeping for the finding split: start slot of the run of sent commands (gaps < 4) each sent command belongs to
    chain_start = {}
    prev = None
    for (slot, *_r) in sent:
        chain_start[slot] = chain_start[prev] if (prev is not None and slot - prev < 4) else slot
        prev = slot
    if lat is None:
        v.append(dict(kind="no-constant-latency-found", first_sent=list(emitted.items())[:3], first_decoded=sorted(decoded.items())[:3]))
    else:
        exp_at = {s + lat: cmdx for s, cmdx in emitted.items()}
        sent_slots = {s: (cmd, bank, addr) for (s, cmd, bank, addr) in sent}
        for s, cmdx in sorted(exp_at.items()):
            got = decoded.get(s)
            if got is None:
                # which earlier *sent* commands fall in its window, and were they emitted?
                src = s - lat
                window = [t for t in sent_slots if 0 < src - t < 4]
                over_suppressed.append(src)
                if len(v) < 12:
                    v.append(dict(kind="command-suppressed-although-nothing-in-flight", slot=src, cmd=sent_slots[src][0],
                                  earlier_commands_in_window=[dict(slot=t, emitted=(t in emitted and (t + lat) in decoded)) for t in window],
                                  extended_check=c["extended"]))
            elif got != cmdx and len(v) < 12:
                v.append(dict(kind="emitted-command-differs", slot=s - lat, expected=cmdx, decoded=got))
        for s, got in sorted(decoded.items()):
            if s not in exp_at and len(v) < 12:
                v.append(dict(kind="unexpected-command-on-the-pads", slot=s - lat, decoded=got, was_sent=(s - lat) in sent_slots,
                              overlaps_emitted=[t for t in emitted if 0 < (s - lat) - t < 4]))
    # what the truncated-window recomputation of the extended check (see the open finding) would emit, for the classifier only
    diff_slots = set()
    if c["extended"]:
        by_cycle = {}
        for (slot, *_r) in sent:
            by_cycle.setdefault(slot // NPH, set()).add(slot % NPH)
        em_rtl = set()
        prevv = [0] * NPH
        for k in range(ncyc + 6):
            cur = [1 if ph in by_cycle.get(k, ()) else 0 for ph in range(NPH)]
            rr = prevv + cur
            hist = [0] * (2 * NPH)
            for i in range(2 * NPH):
                hist[i] = 1 if (rr[i] and not any(hist[max(0, i - 3):i])) else 0
            for ph in range(NPH):
                if cur[ph] and not any(hist[NPH + ph - 3:NPH + ph]):
                    em_rtl.add(k * NPH + ph)
            prevv = cur
        diff_slots = em_rtl ^ set(emitted)
    for x in v:
        sl = x.get("slot")
        x["extended_check"] = c["extended"]
        if sl is not None:
            s0 = sl - lat if (x.get("kind") == "cs-high-on-two-consecutive-slots" and lat is not None) else sl
            x["within_3_slots_of_a_truncated_window_decision"] = any(abs(s0 - d) <= 3 for d in diff_slots)
        if sl is not None and x.get("kind") == "cs-high-on-two-consecutive-slots" and lat is not None:
            sl -= lat            # this witness is in pad time
        if sl is not None:
            # nearest sent command at or before the slot
            cands = [t for t in chain_start if t <= sl]
            if cands:
                t = max(cands)
                x["chain_start_cycles_back"] = sl // NPH - chain_start[t] // NPH
    st = dict(sent=len(sent), expected_emitted=len(emitted), decoded=len(decoded), suppressed_by_rule=len(suppressed), latency_slots=lat,
              overlap_distances_seen=sorted(dists), over_suppressed=len(over_suppressed))
    nontrivial = len(decoded) >= 100 and (dists >= {1, 2, 3} or c["density"] < 0.1)
    return dict(verdict="violated" if v else "held", violations=v[:10], stats=st, nontrivial=bool(nontrivial) or bool(v),
                signature="L%d|%s|%s|%s" % (c["level"], c["extended"], c["density"], c["seed"]))


# ------------------------------------------------------------------------------------------------ level 4
def run_level4(c):
    """the complete LPDDR5PHY command path (real PHY class, simulation pads), observed at its unserialized `.out` CS/CA"""
    from .. import shim  # noqa
    from migen import Module
    from litedram.phy.lpddr5.basephy import LPDDR5PHY
    from litedram.phy.lpddr5.simphy import LPDDR5SimulationPads
    from litedram.phy.utils import Latency
    from ..core import run_sim
    r = random.Random(c["seed"])

    class DUT(Module):
        def __init__(self):
            pads = LPDDR5SimulationPads()
            self.submodules += pads
            self.submodules.phy = LPDDR5PHY(pads, ck_freq=c["clk"], phytype="VerifLPDDR5", ser_latency=Latency(sys=1),
                                            des_latency=Latency(sys=2), wck_ck_ratio=c["wck_ck_ratio"], masked_write=bool(c["masked_write"]))

    dut = DUT()
    p = dut.phy.dfi.p0
    out = dut.phy.out
    trace = []     # per cycle: (dfi command or None, wck_sync_done, cs, rising CA, falling CA)
    state = dict(done=False)
    ncyc = c["cycles"]

    def main():
        pending = None
        for k in range(ncyc + 4):
            if k < ncyc and r.random() < c["density"]:
                cmd, bank, addr = rand_phase(r, 18, 7, r.randrange(4))
                cs_n = 1 if r.random() < 0.05 else 0
                cas, ras, we = DFI_CMDS[cmd]
                yield [p.cs_n.eq(cs_n), p.cas_n.eq(1 - cas), p.ras_n.eq(1 - ras), p.we_n.eq(1 - we), p.bank.eq(bank), p.address.eq(addr)]
                cur = (cmd, bank, addr, cs_n)
            else:
                yield [p.cs_n.eq(1), p.cas_n.eq(1), p.ras_n.eq(1), p.we_n.eq(1), p.bank.eq(r.getrandbits(7)), p.address.eq(r.getrandbits(18))]
                cur = None
            yield
            vals = yield [dut.phy.adapter.wck_sync_done, out.cs] + list(out.ca)
            rise = sum(((vals[2 + i] >> 0) & 1) << i for i in range(7))
            fall = sum(((vals[2 + i] >> 1) & 1) << i for i in range(7))
            trace.append((cur, vals[0], vals[1], rise, fall))
        state["done"] = True

    run_sim(dut, [main()], lambda: state["done"], 4 * ncyc + 200, wall_limit=900)
    v = []
    seen = {}
    n_sent = n_emitted = n_suppressed = 0
    explained = set()      # cycles whose CS/CA are accounted for by an emitted command
    busy = False           # the second half of the previous command occupies this cycle
    sync_states = set()
    for n, (cur, sync_done, cs, rise, fall) in enumerate(trace[:-1]):
        exp = lp5_expected(cur[0], cur[1], cur[2], c["masked_write"], sync_done, cur[3]) if cur is not None else None
        if exp is None:
            busy = False
            continue
        n_sent += 1
        if busy:
            # the only legitimate suppression: it would overlap the second half of the command accepted one cycle earlier
            n_suppressed += 1
            busy = False
            continue
        n_emitted += 1
        sync_states.add(sync_done)
        cs2, rise2, fall2 = trace[n + 1][2:5]
        s1 = lp5_small(rise, fall) if cs else None
        s2 = lp5_small(rise2, fall2) if cs2 else None
        got = None if (s1 is None and s2 is None) else (lp5_full(s1, s2) if s2 is not None else ("FIRST-SLOT-ONLY", s1[0]))
        explained.update((n, n + 1))
        seen[exp[0]] = seen.get(exp[0], 0) + 1
        if got != exp and len(v) < 12:
            v.append(dict(kind="emitted-command-differs", cycle=n, dfi=dict(cmd=cur[0], bank=cur[1], addr=hex(cur[2])), expected=exp,
                          decoded=got, wck_sync_done=sync_done, previous_cycle_had_command=bool(n and trace[n - 1][0])))
        if s1 is None and not cs and (rise or fall) and len(v) < 12:
            v.append(dict(kind="ca-not-idle-in-deselected-first-half", cycle=n, rise=rise, fall=fall))
        busy = True
    for n, (cur, sync_done, cs, rise, fall) in enumerate(trace):
        if n not in explained and (cs or rise or fall) and len(v) < 12:
            v.append(dict(kind="unexpected-command-on-the-pads", cycle=n, cs=cs, rise=rise, fall=fall, dfi=cur))
    kinds_needed = {"ACT", "RD", "PRE", "REF", "MRW", "MPC", "MRR", "MWR" if c["masked_write"] else "WR"}
    st = dict(sent=n_sent, emitted=n_emitted, suppressed_by_rule=n_suppressed, by_type=seen, wck_sync_states=sorted(sync_states))
    nontrivial = n_emitted >= 100 and kinds_needed <= set(seen) and (n_suppressed > 0 or c["density"] < 0.2)
    return dict(verdict="violated" if v else "held", violations=v[:10], stats=st, nontrivial=bool(nontrivial) or bool(v),
                signature="L4|%s|%s|%s|%s" % (c["masked_write"], c["wck_ck_ratio"], c["density"], c["seed"]))


def run_case(c):
    if c["level"] == 4:
        return run_level4(c)
    return run_level1(c) if c["level"] == 1 else run_level2(c)      # level 3 reuses the level-2 oracle on the PHY's outputs


def aggregate(results, cases):
    tot = dict(l1_commands_decoded=0, l2_sent=0, l2_decoded=0, l2_suppressed_by_rule=0, l2_over_suppressed=0)
    tot["level3_phy_cases"] = sum(1 for c in cases if c.get("level") == 3)
    types = {}
    by0 = {c["name"]: c for c in cases}
    l4 = dict(cases=0, sent=0, emitted=0, suppressed_by_rule=0, by_type={}, wck_sync_states=set())
    for r in results:
        st = r.get("stats") or {}
        if (by0.get(r["name"]) or {}).get("level") == 4:
            l4["cases"] += 1
            for k in ("sent", "emitted", "suppressed_by_rule"):
                l4[k] += st.get(k, 0) or 0
            for k, n in (st.get("by_type") or {}).items():
                l4["by_type"][k] = l4["by_type"].get(k, 0) + n
            l4["wck_sync_states"].update(st.get("wck_sync_states") or [])
            continue
        tot["l1_commands_decoded"] += st.get("commands_decoded", 0) or 0
        for k, n in (st.get("by_type") or {}).items():
            types[k] = types.get(k, 0) + n
        tot["l2_sent"] += st.get("sent", 0) or 0
        tot["l2_decoded"] += st.get("decoded", 0) or 0
        tot["l2_suppressed_by_rule"] += st.get("suppressed_by_rule", 0) or 0
        tot["l2_over_suppressed"] += st.get("over_suppressed", 0) or 0
    by = {c["name"]: c for c in cases}
    samples = [dict(case=by.get(r["name"]), verdict=r["verdict"], stats=r.get("stats")) for r in results[:2] + results[-2:]]
    l4["wck_sync_states"] = sorted(l4["wck_sync_states"])
    return dict(observed=tot, level1_commands_by_type=types, level4_lpddr5_phy=l4, samples=samples)


def summary(cov):
    o = cov["observed"]
    l4 = cov.get("level4_lpddr5_phy") or {}
    return ("  observed: level 1: %d commands decoded %s; level 2+3: %d sent, %d decoded on the pads, %d suppressed by the overlap rule, "
            "%d over-suppressed; level 4 (LPDDR5PHY): %s sent, %s emitted and decoded, %s suppressed by the rule, WCK-sync states %s") % (
        o["l1_commands_decoded"], cov["level1_commands_by_type"], o["l2_sent"], o["l2_decoded"], o["l2_suppressed_by_rule"],
        o["l2_over_suppressed"], l4.get("sent"), l4.get("emitted"), l4.get("suppressed_by_rule"), l4.get("wck_sync_states"))
