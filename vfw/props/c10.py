"""C10 -- Wishbone port: one acknowledge per access and memory semantics.  See DESIGN.md section 3/C10."""
import random

LEVEL = "exploration"
BATCH = 10
BATCH_TIMEOUT = 3000
RULE = ("[CORE CASES: a share of the cases (names core*) runs the same front-end and oracle on a port of the real LiteDRAMCrossbar + LiteDRAMController with the reference DRAM on DFI, refresh running, DFI protocol events of the reference model added to the witnesses] case = (bus:port width ratio 1/8..8: narrow-bus merge/cache path, equal path, down-converter path; base address; "
        "access mix: classic and CTI incrementing-burst cycles, random sel, reads and writes inside one wide word, aborts "
        "(cyc/stb dropped at a random cycle before the acknowledge) followed by unrelated accesses; memory-side stall "
        "profile; seed) with LiteDRAMWishbone2Native on the pulsed core stub (and LiteDRAMNative2Wishbone on a Wishbone "
        "memory); oracle: exactly one ack per non-aborted access while stb is asserted, none otherwise; per-byte set-valued "
        "model: a completed write makes its selected bytes singletons, an aborted write adds its value to the set of its "
        "selected bytes, any read byte outside its set or any stored byte outside its set at the end is a violation; bounded "
        "progress per access; non-trivial iff >=1 read hit the read cache or >=1 write merged (narrow path), >=40 accesses "
        "completed and (abort classes) >=1 abort happened; distinct = distinct (ratio, base, class)")
ASSUMPTIONS = [
    "Migen simulator semantics; abstract core stub never stricter than the real core",
    "Wishbone B4 classic and registered-feedback incrementing bursts; a master may legally deassert cyc/stb before ack (abort)",
    "an aborted write may or may not take effect (set-valued), at any later time until the next completed write to that byte",
]
MIN_NONTRIVIAL = {"quick": 10, "thorough": 40}
CLASSES = ["classic", "bursts", "mixed", "aborts", "same-word-rw", "aborts-bursts", "aborts-reads", "aborts-writes", "abort-crossing"]
RATIOS = [(8, 64), (16, 64), (32, 64), (32, 128), (32, 32), (64, 64), (64, 32), (64, 16), (128, 16), (32, 256)]   # (wb bits, port bits)


def cases(tier, seed):
    n = 240 if tier == "quick" else 1500
    out = []
    for k in range(n):
        r = random.Random("C10/%d/%s/%d" % (seed, tier, k))
        wbw, pw = RATIOS[k % len(RATIOS)]
        c = dict(kind="wb2native", wbw=wbw, pw=pw,
                 # incl. a base that is a multiple of the bus word but not of the native word (narrow path: lanes shift)
                 base=r.choice([0, 0, 0x1000, 0x40000000, 0x1000 + 3 * (wbw // 8)]), cls=CLASSES[(k // len(RATIOS)) % len(CLASSES)],
                 nacc=r.randint(50, 110), cmd_ready_prob=r.choice([1.0, 0.7, 0.3]), extra_lat=r.choice([(0, 0), (0, 8), (0, 30)]),
                 long_stall=r.choice([0, 0, 0.01]), gap=r.choice([0, 0, 2, 8]), seed="C10/%d/%d" % (seed, k))
        c["name"] = "%04d-wb%d-p%d-%s-%s" % (k, wbw, pw, c["cls"], hex(c["base"]))
        c["cost"] = c["nacc"]
        out.append(c)
    # the bridge on a port of the real crossbar + controller + reference DRAM
    core_ratios = [(32, 32), (8, 32), (16, 64), (64, 32), (32, 64), (64, 64)]
    core_classes = ["classic", "bursts", "mixed", "same-word-rw", "aborts", "aborts-reads"]
    for k in range(12 if tier == "quick" else 90):
        r = random.Random("C10/%d/%s/core/%d" % (seed, tier, k))
        wbw, pw = core_ratios[k % len(core_ratios)]
        c = dict(kind="wb2native", core=True, wbw=wbw, pw=pw, base=r.choice([0, 0x1000, 0x40000000]),
                 cls=core_classes[(k // 2) % len(core_classes)], nacc=r.randint(50, 90), cmd_ready_prob=1.0, extra_lat=(0, 0), long_stall=0,
                 gap=r.choice([0, 0, 2]), cmd_buffer_depth=r.choice([4, 8, 16]), refresh=(k % 6 != 5), seed="C10/%d/core/%d" % (seed, k))
        c["name"] = "core%03d-wb%d-p%d-%s-%s" % (k, wbw, pw, c["cls"], hex(c["base"]))
        c["cost"] = c["nacc"] * 6
        out.append(c)
    for k in range(12 if tier == "quick" else 60):
        r = random.Random("C10/n2w/%d/%s/%d" % (seed, tier, k))
        c = dict(kind="native2wb", dw=r.choice([32, 64]), base=r.choice([0, 0x1000]), addressing=["word", "byte"][k % 2],
                 nacc=r.randint(40, 80), seed="C10/n2w/%d/%d" % (seed, k))
        c["name"] = "n2w%03d-w%d-%s-%s" % (k, c["dw"], c["addressing"], hex(c["base"]))
        c["cost"] = c["nacc"]
        out.append(c)
    return out


def gen_accesses(c, r, aw_wb, ratio_n):
    """list of groups; group = list of beats dict(adr, we, sel, dat, cti, abort_after) ; a group shares one cyc assertion"""
    cls = c["cls"]
    wbb = c["wbw"] // 8
    full = (1 << wbb) - 1
    # hot words anywhere in the usable address space (the top address bits included), with room for a burst behind them
    hot = [min(r.randrange(1 << (aw_wb - 3)) << 3, (1 << aw_wb) - 256) for _ in range(4)]
    groups = []
    n = 0
    while n < c["nacc"]:
        kind = cls
        if cls == "mixed":
            kind = r.choice(["classic", "bursts", "same-word-rw"])
        if cls == "aborts-bursts":
            kind = r.choice(["aborts", "bursts", "bursts"])
        base = r.choice(hot) + r.randrange(8 * max(1, ratio_n))
        if kind == "abort-crossing" and r.random() < 0.6 and ratio_n >= 2:
            # incrementing read burst that fills the read cache with one wide word, crosses into the next one and is
            # dropped right there (while the bridge is issuing / waiting for the new wide word); the retry follows quickly
            wide = (base // ratio_n) * ratio_n
            first = max(0, ratio_n - r.choice([1, 2, 2]))
            g = [dict(adr=wide + i, we=False, sel=full, dat=0, cti=2, abort_after=None) for i in range(first, ratio_n)]
            g.append(dict(adr=wide + ratio_n, we=False, sel=full, dat=0, cti=2, abort_after=r.choice([0, 0, 1, 1, 2, 4, 8])))
            groups.append(g)
            n += len(g)
            continue
        if kind == "abort-crossing":
            kind = r.choice(["classic", "bursts", "aborts-reads"])
        if kind in ("classic", "aborts", "aborts-reads", "aborts-writes"):
            we = r.random() < 0.5
            may_abort = kind == "aborts" or (kind == "aborts-reads" and not we) or (kind == "aborts-writes" and we)
            beat = dict(adr=base, we=we, sel=full if r.random() < 0.5 else r.getrandbits(wbb), dat=r.getrandbits(c["wbw"]), cti=0,
                        abort_after=r.randint(0, 12) if (may_abort and r.random() < (0.4 if kind == "aborts" else 0.6)) else None)
            groups.append([beat])
            n += 1
        elif kind == "bursts":
            ln = r.randint(2, 8)
            we = r.random() < 0.5
            g = []
            for i in range(ln):
                g.append(dict(adr=base + i, we=we, sel=full if r.random() < 0.7 else r.getrandbits(wbb), dat=r.getrandbits(c["wbw"]),
                              cti=2 if i < ln - 1 else 7,
                              abort_after=r.randint(0, 12) if (cls == "aborts-bursts" and r.random() < 0.1) else None))
            groups.append(g)
            n += ln
        else:   # same-word-rw: interleaved reads and writes inside one wide word, classic cycles, cyc kept between some
            wide = (base // max(1, ratio_n)) * max(1, ratio_n)
            g = []
            for i in range(r.randint(3, 8)):
                g.append(dict(adr=wide + r.randrange(max(1, ratio_n)), we=r.random() < 0.5, sel=full if r.random() < 0.6 else r.getrandbits(wbb),
                              dat=r.getrandbits(c["wbw"]), cti=0, abort_after=None))
            if r.random() < 0.5:
                # one CYC for the whole group; half of these masters tag beats as "incrementing burst, more to come" (CTI=2)
                # whatever the direction of the next beat -- the bridge keeps its read cache across such beats, so a write
                # between two reads of the cached word is the stale-cache scenario of the property
                if r.random() < 0.5:
                    for b in g[:-1]:
                        b["cti"] = r.choice([2, 2, 0])
                    g[-1]["cti"] = 7
                groups.append(g)
            else:
                groups += [[b] for b in g]
            n += len(g)
    # a master that had to drop a cycle usually retries: after a group that may abort, a read of the aborted beat's address
    # (or of its neighbour in the same wide word) follows after a gap of only 1..3 cycles
    out = []
    for g in groups:
        out.append(g)
        ab = [b for b in g if b["abort_after"] is not None]
        if ab and r.random() < 0.6:
            b = ab[0]
            out.append([dict(adr=b["adr"] + r.choice([0, 0, 1]), we=False, sel=full, dat=0, cti=0, abort_after=None, retry=True)])
    return out


def run_wb2native(c):
    from .. import shim  # noqa
    from migen import Module
    from litex.soc.interconnect import wishbone
    from litedram.common import LiteDRAMNativePort
    from litedram.frontend.wishbone import LiteDRAMWishbone2Native
    from ..stub import CoreStub, Store
    from ..core import run_sim
    r = random.Random(c["seed"])
    wbw, pw = c["wbw"], c["pw"]
    wbb, pb = wbw // 8, pw // 8
    aw_port = r.choice([14, 14, 24])
    ratio_n = pw // wbw if pw > wbw else 1
    aw_wb = 30

    class DUT(Module):
        def __init__(self):
            self.wb = wishbone.Interface(data_width=wbw, adr_width=aw_wb, addressing="word")
            self.port = LiteDRAMNativePort("both", aw_port, pw)
            self.submodules.bridge = LiteDRAMWishbone2Native(self.wb, self.port, base_address=c["base"])

    if c.get("core"):
        from ..corebackend import CoreBackend
        stub = CoreBackend(1, databits=pw, refresh=c["refresh"], cmd_buffer_depth=c["cmd_buffer_depth"])
        dut = stub.dut
        dut.wb = wishbone.Interface(data_width=wbw, adr_width=aw_wb, addressing="word")
        dut.submodules.bridge = LiteDRAMWishbone2Native(dut.wb, stub.ports[0], base_address=c["base"])
        store = stub.store
        mem_procs = stub.processes()
        aw_port = stub.ports[0].address_width
    else:
        dut = DUT()
        store = Store(pb)
        stub = CoreStub([dut.port], store, r, cmd_ready_prob=c["cmd_ready_prob"], extra_lat=tuple(c["extra_lat"]), long_stall=c["long_stall"])
        mem_procs = [stub.process()]
    # usable wishbone word addresses: keep inside the port's address space
    span_bits = aw_port + (pb.bit_length() - 1) - (wbb.bit_length() - 1)
    groups = gen_accesses(c, r, min(aw_wb, span_bits), ratio_n)
    off = c["base"] // wbb
    wb = dut.wb
    model = {}        # byte addr -> set of possible values
    res = dict(v=[], acks=0, done=0, aborted=0, spurious=0, reads=0, writes=0, wr_abort_after_cmd=0, rd_abort_after_cmd=0)
    state = dict(done=False)

    def init_byte(ba):
        return store.pattern(ba // pb, pb)[ba % pb]

    def get_set(ba):
        s = model.get(ba)
        if s is None:
            s = {init_byte(ba)}
            model[ba] = s
        return s

    BOUND = 3000
    fsm = getattr(dut.bridge, "fsm", None)
    narrow_path = wbw < pw

    scr = r.random() < 0.5      # half of the masters drive garbage on adr / we / sel / dat_w / cti whenever stb is low

    def garbage():
        if not scr:
            return []
        return [wb.adr.eq(r.getrandbits(len(wb.adr))), wb.we.eq(r.getrandbits(1)), wb.sel.eq(r.getrandbits(wbb)),
                wb.dat_w.eq(r.getrandbits(wbw)), wb.cti.eq(r.choice([0, 2, 7, 1]))]

    def main():
        cyc_n = 0
        yield [wb.cyc.eq(0), wb.stb.eq(0)]
        for _ in range(3):
            yield
        for gi, g in enumerate(groups):
            for bi, b in enumerate(g):
                for _ in range(r.randint(0, c["gap"]) if c["gap"] else 0):
                    # between beats of a burst the master may insert wait states (stb low, cyc high)
                    yield [wb.stb.eq(0)] + garbage()
                    yield
                    if (yield wb.ack):
                        res["spurious"] += 1
                        res["v"].append(dict(kind="ack-without-strobe", group_beat=bi))
                yield [wb.cyc.eq(1), wb.stb.eq(1), wb.we.eq(int(b["we"])), wb.adr.eq(b["adr"] + off), wb.sel.eq(b["sel"]),
                       wb.dat_w.eq(b["dat"]), wb.cti.eq(b["cti"]), wb.bte.eq(0)]
                yield
                waited = 0
                acked = False
                aborted = False
                while True:
                    ack, dat_r = yield [wb.ack, wb.dat_r]
                    if ack:
                        acked = True
                        break
                    if b["abort_after"] is not None and waited >= b["abort_after"]:
                        aborted = True
                        break
                    waited += 1
                    if waited > BOUND:
                        res["v"].append(dict(kind="no-ack-within-bound", beat=dict(adr=b["adr"], we=b["we"], cti=b["cti"]), bound=BOUND))
                        state["done"] = True
                        return
                    yield
                base_ba = b["adr"] * wbb
                if acked:
                    res["acks"] += 1
                    res["done"] += 1
                    if b["we"]:
                        res["writes"] += 1
                        for i in range(wbb):
                            if (b["sel"] >> i) & 1:
                                model[base_ba + i] = {(b["dat"] >> (8 * i)) & 0xFF}
                    else:
                        res["reads"] += 1
                        for i in range(wbb):
                            got = (dat_r >> (8 * i)) & 0xFF
                            s = get_set(base_ba + i)
                            if got not in s:
                                res["v"].append(dict(kind="read-byte-not-in-model-set", adr=b["adr"], byte=i, got=got, allowed=sorted(s),
                                                     cti=b["cti"]))
                                break
                    if bi == len(g) - 1:
                        yield [wb.stb.eq(0), wb.cyc.eq(0)] + garbage()
                    else:
                        yield [wb.stb.eq(0)] + garbage()
                    yield
                    # a second ack for the same access?
                    if (yield wb.ack):
                        res["v"].append(dict(kind="second-ack-for-one-access", adr=b["adr"]))
                else:
                    res["aborted"] += 1
                    if b["we"]:
                        for i in range(wbb):
                            if (b["sel"] >> i) & 1:
                                get_set(base_ba + i).add((b["dat"] >> (8 * i)) & 0xFF)
                    # abort: drop cyc and stb, scramble the bus, idle a while
                    yield [wb.stb.eq(0), wb.cyc.eq(0), wb.dat_w.eq(r.getrandbits(wbw)), wb.sel.eq(r.getrandbits(wbb)), wb.we.eq(r.getrandbits(1)),
                           wb.adr.eq(r.getrandbits(10))]
                    nxt_retry = gi + 1 < len(groups) and groups[gi + 1][0].get("retry")
                    for idle_k in range(r.choice([1, 1, 1, 2, 3]) if nxt_retry else r.randint(1, 40)):
                        yield
                        if idle_k == 0 and fsm is not None and not narrow_path:
                            # the bridge's own FSM tells whether the command of the dropped access had already been accepted:
                            # in the first cycle with cyc low it then sits in its data state
                            s_now = yield fsm.state
                            if s_now == fsm.encoding.get("WRITE", -1):
                                res["wr_abort_after_cmd"] += 1
                            if s_now == fsm.encoding.get("READ", -1):
                                res["rd_abort_after_cmd"] += 1
                        if (yield wb.ack):
                            res["v"].append(dict(kind="ack-after-abort", adr=b["adr"]))
                    break   # the rest of an aborted burst is not issued
        yield [wb.stb.eq(0), wb.cyc.eq(0)]
        quiet, last = 0, None
        for _ in range(30000):
            now = (stub.seq, len(stub.wbeats[0]), len(stub.rbeats[0]), stub.outstanding())
            quiet = quiet + 1 if now == last else 0
            last = now
            if quiet > (200 if c.get("core") else 900) and stub.outstanding() == 0:
                break
            yield
        state["done"] = True

    cycles, reason = run_sim(dut, mem_procs + [main()], lambda: state["done"], 2000000, wall_limit=900)
    if reason == "wall":
        return dict(verdict="inconclusive", why="wall-clock watchdog", violations=[], stats={}, nontrivial=False, signature="")
    v = res["v"] + list(stub.events) + (stub.dfi_events() if c.get("core") else [])
    # final store: every touched byte inside its set; bytes never written keep their initial value
    bad = []
    for wa, w in store.mem.items():
        for i in range(pb):
            ba = wa * pb + i
            s = model.get(ba) or {init_byte(ba)}
            if w[i] not in s:
                bad.append(dict(byte_addr=ba, got=w[i], allowed=sorted(s)))
    if bad and not any(x.get("kind") == "no-ack-within-bound" for x in v):
        v.append(dict(kind="stored-byte-outside-model-set", nbytes=len(bad), first=bad[:3]))
    ncmd = len(stub.accepted[0])
    st = dict(accesses_done=res["done"], aborted=res["aborted"], reads=res["reads"], writes=res["writes"], native_cmds=ncmd,
              native_reads=sum(1 for (_, we, _) in stub.accepted[0] if not we), cycles=cycles,
              cache_hits_or_merges=max(0, res["done"] - ncmd))
    under = sum(1 for e in stub.events if e.get("kind") == "wdata-underrun")
    st["memory_side_underruns"] = under
    st["write_aborts_after_command_accepted"] = res["wr_abort_after_cmd"]
    st["read_aborts_after_command_accepted"] = res["rd_abort_after_cmd"]
    for x in v:
        x["memory_side_underruns"] = under
        x["aborts_in_run"] = res["aborted"]
        x["write_aborts_after_command_accepted"] = res["wr_abort_after_cmd"]
        x["path"] = "narrow" if wbw < pw else ("equal" if wbw == pw else "wide")
    narrow = wbw < pw
    nontrivial = res["done"] >= 40 and (not narrow or st["cache_hits_or_merges"] >= 1) and ("abort" not in c["cls"] or res["aborted"] >= 1)
    sig = "|".join(str(x) for x in (wbw, pw, c["base"], c["cls"], bool(c.get("core"))))
    return dict(verdict="violated" if v else "held", violations=v[:8], stats=st, nontrivial=bool(nontrivial) or bool(v), signature=sig)


def run_native2wb(c):
    """reverse bridge: native master -> LiteDRAMNative2Wishbone -> Wishbone memory model"""
    from .. import shim  # noqa
    from migen import Module
    from litex.soc.interconnect import wishbone
    from litedram.common import LiteDRAMNativePort
    from litedram.frontend.wishbone import LiteDRAMNative2Wishbone
    from ..ports import Op, MemOracle, NativeMaster
    from ..stub import Store
    from ..core import run_sim
    from ..wholecore import rand_wemask, heavy_gap
    r = random.Random(c["seed"])
    dw = c["dw"]
    nb = dw // 8

    class DUT(Module):
        def __init__(self):
            self.port = LiteDRAMNativePort("both", 20, dw)
            self.wb = wishbone.Interface(data_width=dw, adr_width=30, addressing=c["addressing"])
            self.submodules.bridge = LiteDRAMNative2Wishbone(self.port, self.wb, base_address=c["base"])

    dut = DUT()
    store = Store(nb)
    v = []
    wb = dut.wb
    stats = dict(wb_cycles=0)

    def wb_mem():
        yield "passive"
        yield wb.ack.eq(0)
        yield
        lat = 0
        acking = False
        while True:
            cyc, stb, we, adr, sel, dat = yield [wb.cyc, wb.stb, wb.we, wb.adr, wb.sel, wb.dat_w]
            stm = []
            if acking:
                acking = False
                stm.append(wb.ack.eq(0))
            elif cyc and stb:
                if lat > 0:
                    lat -= 1
                else:
                    ba = adr if c["addressing"] == "byte" else adr * nb
                    ba -= c["base"]
                    if ba % nb or ba < 0:
                        v.append(dict(kind="wishbone-address-not-as-expected", adr=adr, base=c["base"]))
                        ba = (ba // nb) * nb
                    wa = ba // nb
                    if we:
                        store.write(wa, dat, sel)
                    else:
                        stm.append(wb.dat_r.eq(store.read(wa)))
                    stm.append(wb.ack.eq(1))
                    acking = True
                    lat = r.choice([0, 0, 1, 3, 8])
                    stats["wb_cycles"] += 1
            if stm:
                yield stm
            yield

    oracle = MemOracle(nb, init=lambda a: bytes(store.get(a)))
    hot = [r.randrange(1 << 12) for _ in range(5)]
    ops = []
    for k in range(c["nacc"]):
        we = r.random() < 0.5
        o = Op(heavy_gap(r, 0.5), we, r.choice(hot) if r.random() < 0.7 else r.randrange(1 << 12))
        if we:
            o.data, o.wemask = r.getrandbits(dw), rand_wemask(r, nb, "mixed")
        ops.append(o)
    viol = []
    m = NativeMaster(dut.port, ops, 0, oracle, "strict", viol)
    m.strobe_semantics = False
    state = {}

    def done_fn():
        cyc = m.cycle
        act = (len(m.accepted), m.rbeats, m.wbeats)
        if act != state.get("a"):
            state["a"], state["t"] = act, cyc
        if m.idle():
            state.setdefault("tf", cyc)
            return cyc - state["tf"] > 30
        if cyc - state.get("t", 0) > 3000:
            state["hang"] = True
            return True
        return False

    cycles, reason = run_sim(dut, [wb_mem(), m.process()], done_fn, 400000, wall_limit=600)
    v += viol
    if state.get("hang"):
        v.append(dict(kind="no-progress", accepted=len(m.accepted), of=len(ops)))
    st = dict(accesses_done=len(m.accepted), reads=m.checked_reads, wb_cycles=stats["wb_cycles"], cycles=cycles)
    return dict(verdict="violated" if v else "held", violations=v[:8], stats=st, nontrivial=len(m.accepted) >= 30 or bool(v),
                signature="n2w|%d|%s|%s" % (dw, c["addressing"], c["base"]))


def run_case(c):
    return run_wb2native(c) if c["kind"] == "wb2native" else run_native2wb(c)


def aggregate(results, cases):
    tot = dict(accesses_done=0, aborted=0, reads=0, writes=0, native_cmds=0, cache_hits_or_merges=0, wb_cycles=0)
    for r in results:
        for k in tot:
            tot[k] += (r.get("stats") or {}).get(k, 0) or 0
    by = {c["name"]: c for c in cases}
    samples = [dict(case=by.get(r["name"]), verdict=r["verdict"], stats=r.get("stats")) for r in results[:3]]
    return dict(observed=tot, samples=samples)


def summary(cov):
    o = cov["observed"]
    return "  observed: %d accesses acknowledged (%d reads, %d writes), %d aborted, %d native commands, %d cache hits / merged beats, %d reverse-bridge bus cycles" % (
        o["accesses_done"], o["reads"], o["writes"], o["aborted"], o["native_cmds"], o["cache_hits_or_merges"], o["wb_cycles"])
