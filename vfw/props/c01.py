"""C01 -- every read returns the last bytes written (whole core).  See DESIGN.md section 3/C01."""
import random

from .. import corecfg

LEVEL = "exploration"
BATCH = 1
BATCH_TIMEOUT = 2400
RULE = ("case = (memory configuration, controller settings, port count, workload class, seed) executed on the real "
        "controller+crossbar against the reference DRAM; non-trivial iff >=30 reads were checked byte by byte, >=1 row "
        "miss (PRE or auto-precharge) occurred, (multi-port cases) >=1 read observed a write of another port, and in "
        "refresh classes >=1 REF fell inside the traffic; distinct = distinct (config family, workload class, "
        "buffered, auto-precharge, nports, DFI command-bigram set)")
ASSUMPTIONS = [
    "Migen simulator semantics (two-valued, zero-delay)",
    "reference DRAM's DFI data contract: WR at cycle t -> burst on wrdata of all phases at t+write_latency; RD at t -> rddata at t+read_latency",
    "masters obey the contract of the property by construction (fifo: data queued with the command; strict: one write in flight)",
    "bounded restatement of 'exactly one word': all accepted commands complete within the drain bound D(config)",
]
MIN_NONTRIVIAL = {"quick": 8, "thorough": 40}

CLASSES = ["mixed", "same-address", "row-conflict", "streams", "byte-lanes"]


def cases(tier, seed):
    rng = random.Random("C01/%d/%s" % (seed, tier))
    n = 56 if tier == "quick" else 480
    out = []
    fams = ["SDR1", "SDR1", "SDR2", "DDR2x", "LPDDR", "DDR3x2", "DDR3x4", "DDR4x4", "LPDDR4x8", "LPDDR5x1", "SDR2"]
    for k in range(n):
        r = random.Random("C01/%d/%s/%d" % (seed, tier, k))
        if k % 8 == 7:
            mem = dict(r.choice(corecfg.MODULE_MEMS))
            if mem["cls"] == "MT40A1G8" and tier == "quick" and k % 16 != 15:
                mem = dict(corecfg.MODULE_MEMS[k % 6])
        else:
            mem = corecfg.synth_mem(r, fams[k % len(fams)])
        refresh = r.random() < 0.7
        cs = corecfg.rand_cs(r, refresh=refresh)
        nports = r.choice([1, 2, 2, 3, 4, 8] if tier == "thorough" else [1, 2, 2, 3, 4])
        if r.random() < 0.15:
            mem["nranks"] = 2
            if mem.get("kind") == "synthetic" and mem["bankbits"] >= 4:
                mem["bankbits"] = 3      # 32 bank machines simulate at < 10 cycles/s
        cls = CLASSES[k % len(CLASSES)]
        nops = r.randint(60, 110) if tier == "quick" else r.randint(80, 200)
        nops = max(20, nops // max(1, nports // 2))
        wl = {"class": cls, "nops": nops, "master_mode": r.choice(["fifo", "fifo", "strict", "rand"]),
              "hot_rows": r.choice([2, 3]), "hot_cols": 2, "wr_frac": r.choice([0.3, 0.5, 0.5, 0.7])}
        if cls == "same-address":
            wl["naddrs"] = r.randint(1, 4)
        cfg = dict(mem=mem, cs=cs, nports=nports, workload=wl, seed="C01/%d/%d" % (seed, k),
                   trefi_override=r.randint(100, 140) if refresh else None, max_cycles=40000)
        cfg["name"] = "%03d-%s-%s-p%d" % (k, mem.get("family", mem.get("cls")), cls, nports)
        cfg["cost"] = corecfg.cost_of(mem, nports, 2500)
        out.append(cfg)
    return out


def run_case(cfg):
    from .. import wholecore as W
    tr = W.run_case(cfg)
    v, st = W.check_data(tr)
    if tr.reason == "wall":
        return dict(verdict="inconclusive", why="wall-clock watchdog", violations=[], stats=st, nontrivial=False, signature="")
    if tr.reason == "cycle-cap" and not v:
        return dict(verdict="inconclusive", why="cycle cap reached before traffic finished", violations=[], stats=st,
                    nontrivial=False, signature="")
    xraw = W.cross_port_raw(tr)
    st["cross_port_raw"] = xraw
    st["bigrams"] = sorted("%s>%s" % b for b in tr.ref.bigrams)
    ap = sum(1 for e in tr.ref.rd_log + tr.ref.wr_log if e["ap"])
    st["auto_precharges"] = ap
    refresh = bool(cfg["cs"].get("with_refresh", True))
    nontrivial = (st["reads_checked"] >= 30 and (st["pre"] + ap) >= 1 and (cfg["nports"] == 1 or xraw >= 1)
                  and (not refresh or st["ref"] >= 1))
    mem = cfg["mem"]
    sig = "|".join(str(x) for x in (mem.get("family", mem.get("cls")), cfg["workload"]["class"],
                                    cfg["cs"].get("cmd_buffer_buffered"), cfg["cs"].get("with_auto_precharge"),
                                    cfg["nports"], hash(tuple(st["bigrams"])) & 0xFFFFFF))
    st["history_sample"] = (W_ if "W_" in dir() else W).trace_sample(tr)
    return dict(verdict="violated" if v else "held", violations=v[:12], stats=st, nontrivial=nontrivial, signature=sig)


def aggregate(results, cases):
    tot = dict(reads_checked=0, writes=0, cross_port_raw=0, act=0, pre=0, ref=0, auto_precharges=0, sweep=0, cycles=0)
    bigr = set()
    mx_cmd = mx_data = 0
    for r in results:
        st = r.get("stats") or {}
        for k in tot:
            tot[k] += st.get(k, 0) or 0
        bigr.update(st.get("bigrams", []))
        mx_cmd = max(mx_cmd, st.get("max_cmd_wait", 0) or 0)
        mx_data = max(mx_data, st.get("max_data_wait", 0) or 0)
    by = {c["name"]: c for c in cases}
    samples = []
    for r in results[:3]:
        c = by.get(r["name"], {})
        samples.append(dict(case=r["name"], mem=c.get("mem"), cs=c.get("cs"), nports=c.get("nports"),
                            workload=c.get("workload"), verdict=r["verdict"], stats=r.get("stats")))
    return dict(observed=tot, dfi_command_bigrams_seen=sorted(bigr), max_cmd_wait_cycles=mx_cmd,
                max_data_wait_cycles=mx_data, samples=samples)


def summary(cov):
    o = cov["observed"]
    return ("  observed: %d reads checked, %d writes, %d cross-port read-after-write, %d ACT, %d PRE, %d auto-PRE, %d REF, "
            "%d sweep reads, %d bigrams" % (o["reads_checked"], o["writes"], o["cross_port_raw"], o["act"], o["pre"],
                                            o["auto_precharges"], o["ref"], o["sweep"], len(cov["dfi_command_bigrams_seen"])))
