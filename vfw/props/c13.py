"""C13 -- DRAM-backed FIFO is lossless, ordered and bounded.  See DESIGN.md section 3/C13."""
import random

LEVEL = "exploration"
BATCH = 8
BATCH_TIMEOUT = 3000
RULE = ("[CORE CASES: a share of the cases (names core*) runs the same front-end and oracle on a port of the real LiteDRAMCrossbar + LiteDRAMController with the reference DRAM on DFI, refresh running, DFI protocol events of the reference model added to the witnesses] case = (with/without bypass, stream width, DRAM word ratio 1..8, depth 4..64 DRAM words, base, producer/consumer rate "
        "schedule built from alternating fill / drain / trickle phases, memory stall profile, seed) on a two-port pulsed core "
        "stub with one shared store and global acceptance order; oracle: output stream == input stream (every word carries a "
        "unique tag: first divergence is the witness), no write is accepted for a location whose previous word has not been "
        "read back (occupancy <= depth observed at the memory boundary), everything sent comes out within a progress bound; "
        "non-trivial iff the stream was >= 5x the depth, the DRAM pointers wrapped >= 2 times and (bypass variant) >= 2 "
        "BYPASS->DRAM->BYPASS round trips occurred; distinct = distinct (bypass, width, ratio, depth, schedule class)")
ASSUMPTIONS = [
    "Migen simulator semantics",
    "abstract core stub never stricter than the real core; a read accepted after a write to the same address (other port) "
    "observes it (C01)",
]
MIN_NONTRIVIAL = {"quick": 10, "thorough": 40}
SCHEDULES = ["fill-drain", "balanced", "trickle", "bursty", "consumer-stalls", "full-slow-consumer", "packets"]


def cases(tier, seed):
    n = 120 if tier == "quick" else 900
    out = []
    for k in range(n):
        r = random.Random("C13/%d/%s/%d" % (seed, tier, k))
        bypass = (k % 3) != 0
        ratio = r.choice([1, 2, 4, 8]) if bypass else 1
        dw = r.choice([8, 16, 32])
        depth_words = r.choice([4, 8, 8, 16, 32, 64, 16, 48, 24, 112 if tier == "thorough" else 48])
        if k % 4 == 3:
            depth_words = r.choice([12, 24, 40, 6, 20])      # not a power of two
        c = dict(bypass=bypass, ratio=ratio, dw=dw, depth_words=depth_words,
                 # regions packed back to back (base a multiple of the depth) as well as arbitrary bases
                 base_words=r.choice([0, 16, 1000, depth_words, 2 * depth_words, 3 * depth_words, 5 * depth_words,
                                      (1 << 24) + 7 * depth_words, (1 << 25) - depth_words]),       # incl. regions high up in a large memory
                 schedule=SCHEDULES[k % len(SCHEDULES)], factor=r.randint(5, 14) if tier == "quick" else r.randint(5, 50),
                 cmd_ready_prob=r.choice([1.0, 0.7, 0.4]), extra_lat=r.choice([(0, 0), (0, 8), (0, 30)]),
                 long_stall=r.choice([0, 0, 0.01]), pre=r.choice([16, 16, 4]), post=r.choice([16, 16, 4]), seed="C13/%d/%d" % (seed, k))
        if c["schedule"] == "packets":
            c["long_stall"], c["extra_lat"] = 0, r.choice([(0, 0), (0, 8), (0, 30)])
            # bounded-latency checkpoints only where the two open bypass / ratio > 1 findings cannot be involved (those leave
            # words inside by themselves): the packets schedule runs at ratio 1
            c["ratio"] = ratio = 1
        c["name"] = "%04d-%s-w%d-x%d-d%d-%s" % (k, "bypass" if bypass else "plain", dw, ratio, depth_words, c["schedule"])
        c["cost"] = depth_words * ratio * c["factor"]
        out.append(c)
    # the FIFO between a write port and a read port of the real crossbar + controller + reference DRAM
    for k in range(10 if tier == "quick" else 80):
        r = random.Random("C13/%d/%s/core/%d" % (seed, tier, k))
        bypass = (k % 2) == 1
        ratio = (2 if k % 10 == 9 else 1) if bypass else 1
        dw = r.choice([16, 32])
        depth_words = r.choice([8, 16, 32])
        c = dict(core=True, bypass=bypass, ratio=ratio, dw=dw, depth_words=depth_words, base_words=r.choice([0, 48, 1000]),
                 schedule=SCHEDULES[k % len(SCHEDULES)], factor=r.randint(5, 8), cmd_ready_prob=1.0, extra_lat=(0, 0), long_stall=0,
                 pre=r.choice([16, 4]), post=r.choice([16, 4]), cmd_buffer_depth=r.choice([4, 8, 16]), refresh=(k % 5 != 4),
                 seed="C13/%d/core/%d" % (seed, k))
        if c["schedule"] == "packets":
            c["ratio"] = ratio = 1
        c["name"] = "core%03d-%s-w%d-x%d-d%d-%s" % (k, "bypass" if bypass else "plain", dw, ratio, depth_words, c["schedule"])
        c["cost"] = depth_words * ratio * c["factor"] * 6
        out.append(c)
    return out


class RatePlan:
    """piecewise-constant (producer valid probability, consumer ready probability) phases"""

    GAP = 420

    def __init__(self, schedule, r, total):
        self.phases = []
        self.checkpoints = []      # cycles at which everything pushed so far must have come out ("packets" schedule)
        t = 0
        while t < total * 40:
            ln = r.randint(60, 400)
            if schedule == "fill-drain":
                p = (1.0, 0.02) if len(self.phases) % 2 == 0 else (0.05, 1.0)
            elif schedule == "balanced":
                p = (r.choice([0.5, 0.8, 1.0]), r.choice([0.5, 0.8, 1.0]))
            elif schedule == "trickle":
                p = (r.choice([0.05, 0.1]), r.choice([0.05, 1.0]))
            elif schedule == "bursty":
                p = r.choice([(1.0, 1.0), (1.0, 0.0), (0.0, 1.0), (0.3, 0.3)])
            elif schedule == "packets":
                # short packets (1..8 producer cycles) separated by idle gaps, the consumer always ready: at the end of every
                # gap the FIFO must be empty again (bounded latency: nothing may be withheld until the next word is pushed)
                if len(self.phases) % 2 == 0:
                    p, ln = (1.0, 1.0), r.randint(1, 8)
                else:
                    p, ln = (0.0, 1.0), self.GAP
                    self.checkpoints.append(t + ln - 1)
            elif schedule == "full-slow-consumer":
                # saturating producer; the consumer stalls until everything (pre FIFO, DRAM ring, reader FIFO, post FIFO) is
                # full, then pops slowly and irregularly so that the whole path sits at "exactly full" for a long time
                p = [(1.0, 0.0), (1.0, 0.2), (1.0, 0.1), (0.2, 1.0)][len(self.phases) % 4]
                if len(self.phases) % 4 == 0:
                    ln = max(ln, min(total // 5 + 200, 3000))     # stream >= 5x depth: long enough to fill, below the progress bound
            else:
                p = (1.0, 0.0) if len(self.phases) % 3 == 0 else (r.choice([0.3, 1.0]), 1.0)
            self.phases.append((t, t + ln, p))
            t += ln
        self.i = 0

    def at(self, cyc):
        while self.i + 1 < len(self.phases) and cyc >= self.phases[self.i][1]:
            self.i += 1
        if cyc >= self.phases[-1][1]:
            return (1.0, 1.0)        # plan exhausted: let everything through (a phase with probability 0 must not last for ever)
        return self.phases[self.i][2]


def run_case(c):
    from .. import shim  # noqa
    from migen import Module
    from litedram.common import LiteDRAMNativePort
    from litedram.frontend.fifo import LiteDRAMFIFO
    from ..stub import CoreStub, Store
    from ..core import run_sim
    r = random.Random(c["seed"])
    dw, ratio = c["dw"], c["ratio"]
    pdw = dw * ratio
    pb = pdw // 8
    aw = 26 if c["base_words"] >= (1 << 20) else 14

    class DUT(Module):
        def __init__(self):
            self.wport = LiteDRAMNativePort("write", aw, pdw)
            self.rport = LiteDRAMNativePort("read", aw, pdw)
            self.submodules.fifo = LiteDRAMFIFO(dw, base=c["base_words"] * pb, depth=c["depth_words"] * pb,
                                                write_port=self.wport, read_port=self.rport, with_bypass=c["bypass"],
                                                pre_fifo_depth=c["pre"], post_fifo_depth=c["post"])

    if c.get("core"):
        from ..corebackend import CoreBackend
        stub = CoreBackend(2, databits=pdw, refresh=c["refresh"], cmd_buffer_depth=c["cmd_buffer_depth"],
                           port_specs=[dict(mode="write"), dict(mode="read")])
        dut = stub.dut
        dut.submodules.fifo = LiteDRAMFIFO(dw, base=c["base_words"] * pb, depth=c["depth_words"] * pb, write_port=stub.ports[0],
                                           read_port=stub.ports[1], with_bypass=c["bypass"], pre_fifo_depth=c["pre"],
                                           post_fifo_depth=c["post"])
        mem_procs = stub.processes()
    else:
        dut = DUT()
        store = Store(pb)
        stub = CoreStub([dut.wport, dut.rport], store, r, cmd_ready_prob=c["cmd_ready_prob"], extra_lat=tuple(c["extra_lat"]),
                        long_stall=c["long_stall"], max_outstanding=48)
        mem_procs = [stub.process()]
    total = c["depth_words"] * ratio * c["factor"]
    mask = (1 << dw) - 1
    # unique tags: position folded into the word (wraps for 8-bit streams, so also compare positions by count)
    words = [((k * 2654435761) ^ (k >> 3)) & mask if dw > 8 else (k * 37 + (k >> 8)) & mask for k in range(total)]
    if c["schedule"] == "packets":
        total = min(total, 150)       # ~35 packets with an idle gap after each
    plan = RatePlan(c["schedule"], r, total)
    checkpoints = set(plan.checkpoints)
    withheld = []
    state = dict(sent=0, got=[], t_last=0, fsm_states=set(), trans=0, last_state=None, roundtrips=0)
    sink, source = dut.fifo.sink, dut.fifo.source
    has_fsm = c["bypass"]

    scr = r.random() < 0.5

    def driver():
        yield "passive"
        valid = ready = 0
        i = 0
        cyc = 0
        yield [sink.valid.eq(0), source.ready.eq(0)]
        yield
        sigs = [sink.ready, source.valid, source.data] + ([dut.fifo.fsm.state] if has_fsm else [])
        while True:
            vals = yield sigs
            cyc += 1
            state["cyc"] = cyc
            if valid and vals[0]:
                i += 1
                valid = 0
                state["sent"] = i
                state["t_last"] = cyc
            if ready and vals[1]:
                state["got"].append(vals[2])
                state["t_last"] = cyc
            if has_fsm:
                s = vals[3]
                if s != state["last_state"]:
                    state["trans"] += 1
                    if state["last_state"] is not None and s == 0:
                        state["roundtrips"] += 1
                    state["last_state"] = s
                state["fsm_states"].add(s)
            if cyc in checkpoints and i < total and len(state["got"]) != i and len(withheld) < 3:
                withheld.append(dict(kind="words-withheld-while-idle", cycle=cyc, pushed=i, delivered=len(state["got"]),
                                     idle_cycles_with_consumer_ready=plan.GAP,
                                     note="producer idle and consumer ready for the whole gap, yet not everything pushed came out"))
            pv, pr = plan.at(cyc)
            if i >= total:
                pr = max(pr, 0.5)     # producer finished: let the consumer drain
            stmts = []
            if not valid and i < total and r.random() < pv:
                stmts += [sink.valid.eq(1), sink.data.eq(words[i])]
                valid = 1
            elif not valid:
                stmts.append(sink.valid.eq(0))
                if scr:
                    stmts.append(sink.data.eq(r.getrandbits(dw)))       # payload is don't-care while valid is low
            nr = 1 if r.random() < pr else 0
            if nr != ready:
                stmts.append(source.ready.eq(nr))
                ready = nr
            if stmts:
                yield stmts
            yield

    bound = 6000

    def done_fn():
        cyc = state.get("cyc", 0)
        if state["sent"] >= total and len(state["got"]) >= total:
            state.setdefault("t_fin", cyc)
            return cyc - state["t_fin"] > 100
        if cyc - state["t_last"] > bound:
            state["hang"] = True
            return True
        return False

    cycles, reason = run_sim(dut, mem_procs + [driver()], done_fn, 2000000, wall_limit=900)
    if reason == "wall":
        return dict(verdict="inconclusive", why="wall-clock watchdog", violations=[], stats={}, nontrivial=False, signature="")
    v = list(stub.events) + (stub.dfi_events() if c.get("core") else []) + withheld
    got = state["got"]
    exp = words[:len(got)]
    if got != exp:
        k = next((i for i in range(min(len(got), len(exp))) if got[i] != exp[i]), len(exp))
        v.append(dict(kind="output-stream-differs", index=k, expected=[hex(x) for x in words[k:k + 4]], got=[hex(x) for x in got[k:k + 4]],
                      n_got=len(got), n_sent=state["sent"]))
    if len(got) > state["sent"]:
        v.append(dict(kind="more-words-out-than-in", n_got=len(got), n_sent=state["sent"]))
    if state.get("hang") or reason == "cycle-cap":
        v.append(dict(kind="no-progress", sent=state["sent"], got=len(got), of=total, waited=bound,
                      fsm_state=state["last_state"]))
    # occupancy at the memory boundary: global acceptance order of the two ports
    acc = sorted([(cyc, 1, a) for (cyc, we, a) in stub.accepted[0]] + [(cyc, 0, a) for (cyc, we, a) in stub.accepted[1]])
    unread = {}
    lo, hi = c["base_words"], c["base_words"] + c["depth_words"]
    wraps = 0
    for (cyc, we, a) in acc:
        if not (lo <= a < hi):
            v.append(dict(kind="access-outside-fifo-region", addr=a, region=(lo, hi), we=we))
            break
        if we:
            if unread.get(a):
                v.append(dict(kind="overwrite-of-unread-word", addr=a, cycle=cyc))
                break
            unread[a] = True
            if a == lo:
                wraps += 1
        else:
            if not unread.get(a):
                v.append(dict(kind="read-of-word-never-written-or-already-read", addr=a, cycle=cyc))
                break
            unread[a] = False
    st = dict(words=len(got), total=total, dram_writes=len(stub.accepted[0]), dram_reads=len(stub.accepted[1]), wraps=max(0, wraps - 1),
              fsm_states=sorted(state["fsm_states"]), fsm_transitions=state["trans"], roundtrips=state["roundtrips"], cycles=cycles)
    enc = dict(dut.fifo.fsm.encoding) if has_fsm else {}
    pump = bool(set(st["fsm_states"]) & {enc.get("PUMP_PRECONVERTER"), enc.get("DRAIN_POSTCONVERTER")})
    from collections import Counter
    perm = (len(got) == state["sent"] and sorted(got) == sorted(words[:len(got)]))
    sub = not (Counter(got) - Counter(words[:state["sent"]]))      # nothing invented, nothing duplicated
    for x in v:
        x["output_is_permutation_of_input"] = perm
        x["output_is_submultiset_of_input"] = sub
        x["words_still_inside"] = state["sent"] - len(got)
        x["bypass"] = c["bypass"]
        x["ratio"] = ratio
        x["visited_pump_or_drain_state"] = pump
    nontrivial = len(got) >= 5 * c["depth_words"] and (st["wraps"] >= 2 or (c["bypass"] and st["roundtrips"] >= 2))
    if not c["bypass"]:
        nontrivial = len(got) >= 5 * c["depth_words"] and st["wraps"] >= 2
    sig = "|".join(str(x) for x in (c["bypass"], dw, ratio, c["depth_words"], c["schedule"], bool(c.get("core"))))
    return dict(verdict="violated" if v else "held", violations=v[:8], stats=st, nontrivial=bool(nontrivial) or bool(v), signature=sig)


def aggregate(results, cases):
    tot = dict(words=0, dram_writes=0, dram_reads=0, wraps=0, fsm_transitions=0, roundtrips=0)
    states = set()
    for r in results:
        st = r.get("stats") or {}
        for k in tot:
            tot[k] += st.get(k, 0) or 0
        states.update(st.get("fsm_states", []))
    by = {c["name"]: c for c in cases}
    samples = [dict(case=by.get(r["name"]), verdict=r["verdict"], stats=r.get("stats")) for r in results[:3]]
    return dict(observed=tot, fsm_states_visited=sorted(states), samples=samples)


def summary(cov):
    o = cov["observed"]
    return "  observed: %d words through, %d DRAM writes / %d reads, %d pointer wraps, %d mode-FSM transitions (%d round trips), states %s" % (
        o["words"], o["dram_writes"], o["dram_reads"], o["wraps"], o["fsm_transitions"], o["roundtrips"], cov["fsm_states_visited"])
