"""C16 -- cycle counts derived from datasheets are never on the unsafe side (runtime contracts).

icontract post-conditions are wrapped (from the harness, nothing edited in /repo) around the real
SDRAMModule.__init__; a dense configuration sweep constructs the modules; every construction
evaluates the contract (evaluations are counted; zero evaluations = inconclusive)."""
import math
import os
import random
from fractions import Fraction

LEVEL = "exploration"
BATCH = 4
BATCH_TIMEOUT = 3000
RULE = ("case = (module class, speedgrade, rate, DDR4 fine-refresh mode) x a list of controller clocks (log-spaced 10..400 MHz "
        "plus clocks at which some datasheet ns value is an exact multiple of the period, +-1e-9 relative); each construction "
        "of the real SDRAMModule runs the post-condition: for every minimum timing X, cycles(X)*T >= ns(X) + T*(1-1/n) and "
        "cycles(X)*n >= ck(X) (tRC against tRP+tRAS), and cycles(tREFI)*T <= tREFI_ns (exact fractions, 1 ps tolerance); "
        "SPD images: the same against an independent JEDEC decode of the SPD bytes; synthetic datasheets: classes generated "
        "with every notation of a value (ns, (ck, None), (None, ns), (ck, ns), absent; timing objects or plain attributes) and "
        "random magnitudes, built at random rates 1:1..1:8 and refresh modes; one case runs the repository's own tests (modules, "
        "timing, refresh, bank machine, multiplexer, crossbar, BIST, DMA) with the contract on in record-only mode; non-trivial = the contract was evaluated "
        "and at least one ceiling was within 5% of flipping; distinct = distinct (class, speedgrade, rate, result vector)")
ASSUMPTIONS = [
    "datasheet values are those in the class tables of litedram/modules.py (the property's reference)",
    "least favourable phases: first command on the last phase of its controller cycle, second on phase 0",
    "SPD reference decode written from JEDEC SPD annex K (DDR3) / L (DDR4) byte definitions",
]
MIN_NONTRIVIAL = {"quick": 50, "thorough": 50}
TOL = Fraction(1, 1000)   # 1 ps in ns
MIN_TIMINGS = ["tRP", "tRCD", "tWR", "tWTR", "tRFC", "tFAW", "tCCD", "tRRD", "tRAS", "tZQCS"]


class TimingContractBroken(Exception):
    def __init__(self, witness):
        Exception.__init__(self, str(witness))
        self.witness = witness


COUNTERS = dict(evaluations=0, near_flip=0)
LAST = {}
RECORD_ONLY = []      # non-empty: the contract records witnesses and returns True (used under the repository's own tests)
RECORDED = []
SEEN_CONFIGS = set()


def _datasheet(module, name):
    frm = getattr(module.timing_settings, "fine_refresh_mode", None)
    if name in ("tRFC", "tREFI"):
        return module.get(name, frm)
    return module.get(name)


def find_unsafe(module, reference=None):
    """Returns a list of witnesses (empty = contract holds). reference: optional dict name -> (ck, ns) overriding the
    class tables (used for SPD-built modules)."""
    T = Fraction(10 ** 9) / Fraction(module.clk_freq)
    n = int(module.rate.split(":")[1])
    ts = module.timing_settings
    out = []
    near = False
    vec = []
    for name in MIN_TIMINGS + ["tRC"]:
        if name == "tRC":
            a, b = (reference or {}).get("tRP") or _datasheet(module, "tRP"), (reference or {}).get("tRAS") or _datasheet(module, "tRAS")
            if a is None or b is None:
                continue
            ck, ns = (a[0] or 0) + (b[0] or 0), Fraction(a[1] or 0) + Fraction(b[1] or 0)
        else:
            d = (reference or {}).get(name) or _datasheet(module, name)
            if d is None:
                continue
            ck, ns = d[0] or 0, Fraction(d[1] or 0)
        c = getattr(ts, name)
        vec.append(c)
        if c is None:
            out.append(dict(timing=name, problem="datasheet gives a value but the controller gets None", ck=ck, ns=float(ns)))
            continue
        need_ns = ns + T * (1 - Fraction(1, n)) if ns > 0 else Fraction(0)
        if c * T < need_ns - TOL:
            out.append(dict(timing=name, problem="ns not covered on worst-case phases", cycles=c, period_ns=float(T),
                            datasheet_ns=float(ns), needed_ns_with_phase_margin=float(need_ns), nphases=n))
        if c * n < ck:
            out.append(dict(timing=name, problem="fewer DRAM clocks than the datasheet clock count", cycles=c, nphases=n,
                            datasheet_ck=ck))
        if need_ns > 0 and (c * T - need_ns) < T * Fraction(1, 20):
            near = True
    refi = (reference or {}).get("tREFI") or _datasheet(module, "tREFI")
    c = ts.tREFI
    vec.append(c)
    ns = Fraction(refi[1])
    if c * T > ns + TOL:
        out.append(dict(timing="tREFI", problem="refresh interval handed to the controller exceeds the datasheet interval",
                        cycles=c, period_ns=float(T), interval_ns=float(c * T), datasheet_ns=float(ns)))
    LAST["vec"] = tuple(vec)
    LAST["near"] = near
    return out


def timings_cover_datasheet(self):
    """post-condition of SDRAMModule.__init__ (named function, parameter `self`)"""
    COUNTERS["evaluations"] += 1
    w = find_unsafe(self, getattr(type(self), "_verif_reference", None))
    if LAST.get("near"):
        COUNTERS["near_flip"] += 1
    LAST["witness"] = w
    if RECORD_ONLY:
        SEEN_CONFIGS.add("%s|%s|%s|%s" % (type(self).__name__, self.speedgrade, self.rate, self.clk_freq))
        for x in w:
            RECORDED.append(dict(kind="unsafe-cycle-count", cls=type(self).__name__, clk_freq=self.clk_freq, rate=self.rate,
                                 speedgrade=self.speedgrade, unsafe=[x], under="repository test suite"))
        return True
    return not w


def _error(self):
    return TimingContractBroken(dict(cls=type(self).__name__, clk_freq=self.clk_freq, rate=self.rate,
                                     speedgrade=self.speedgrade, unsafe=LAST.get("witness")))


_wrapped = False


def install_contract():
    global _wrapped
    if _wrapped:
        return
    import icontract
    from litedram import modules as M
    M.SDRAMModule.__init__ = icontract.ensure(timings_cover_datasheet, error=_error)(M.SDRAMModule.__init__)
    _wrapped = True


# ---------------------------------------------------------------------------------------------- sweep
def clock_list(cls, speedgrade, frm, nlog, r):
    """log-spaced clocks plus clocks where ns/T is (nearly) an integer"""
    out = []
    for i in range(nlog):
        out.append(10e6 * (40.0 ** (i / max(1, nlog - 1))))
    # exact-multiple clocks
    vals = set()
    try:
        try:
            m = cls(100e6, "1:1", **({"speedgrade": speedgrade} if speedgrade else {}))
        except TimingContractBroken:
            m = None
        for name in MIN_TIMINGS + ["tREFI"]:
            d = m.get(name, frm) if name in ("tRFC", "tREFI") and frm else (m.get(name) if name not in ("tRFC", "tREFI") or m.memtype != "DDR4" else m.get(name, "1x"))
            if d is not None and d[1]:
                vals.add(float(d[1]))
    except Exception:
        pass
    for v in sorted(vals):
        for _ in range(6):
            k = r.randint(1, max(2, int(v * 0.4)))     # k cycles at f = k / v  (GHz)
            f = k / v * 1e9
            if 5e6 <= f <= 500e6:
                out += [f, f * (1 + 1e-9), f * (1 - 1e-9)]
    return out


def cases(tier, seed):
    from .. import modlib
    out = []
    classes = modlib.module_classes(None)
    nlog = 120 if tier == "quick" else 420
    for cls in classes:
        for sg in modlib.speedgrades(cls):
            rates = ["1:1", "1:2", "1:4"] + (["1:8"] if cls.memtype in ("LPDDR4",) else [])
            frms = ["1x", "2x", "4x"] if cls.memtype == "DDR4" else [None]
            for rate in rates:
                for frm in frms:
                    out.append(dict(kind="class", cls=cls.__name__, speedgrade=sg, rate=rate, frm=frm, nlog=nlog,
                                    seed="C16/%d/%s/%s/%s/%s" % (seed, cls.__name__, sg, rate, frm),
                                    name="%s-%s-%s-%s" % (cls.__name__, sg, rate.replace(":", "to"), frm), cost=1))
    spd_dir = os.path.join(os.environ.get("VERIF_REPO", "/repo"), "test", "spd_data")
    for fn in sorted(os.listdir(spd_dir)):
        out.append(dict(kind="spd", file=fn, nlog=nlog, seed="C16/%d/%s" % (seed, fn), name="spd-" + fn, cost=1))
        # the same image with its timing bytes re-drawn (other die densities / speed bins: long tRFC of 16 Gb dies, 12-bit
        # fields with the top nibble used, negative fine offsets): "against the SPD contents" is a statement about any contents
        for j in range(2 if tier == "quick" else 8):
            out.append(dict(kind="spd", file=fn, variant=j + 1, nlog=max(40, nlog // 3), seed="C16/%d/%s/v%d" % (seed, fn, j),
                            name="spd-%s-v%d" % (fn, j + 1), cost=1))
    # synthetic datasheets: every way a value can be written (ns, (ck, None), (None, ns), (ck, ns), absent), both class
    # styles (timing objects / plain attributes), random magnitudes -- the library only samples a few dozen values
    # the repository's own tests as a workload, with the contract on in record-only mode
    out.append(dict(kind="suite", tests=["test/test_modules.py", "test/test_timing.py", "test/test_refresh.py", "test/test_bankmachine.py",
                                        "test/test_multiplexer.py", "test/test_crossbar.py", "test/test_bist.py", "test/test_dma.py"],
                    seed="suite", name="repository-tests-under-contract", cost=50))
    for k in range(60 if tier == "quick" else 600):
        out.append(dict(kind="synthetic", nlog=40 if tier == "quick" else 80, seed="C16/%d/syn/%d" % (seed, k),
                        name="synthetic-%04d" % k, cost=1))
    return out


def synthetic_class(r):
    from litedram import modules as M
    memtype = r.choice(["SDR", "DDR", "LPDDR", "DDR2", "DDR3", "DDR4"])

    def val(lo, hi, allow_none=False, force_pair=False):
        ns = round(r.uniform(lo, hi), r.choice([0, 1, 2, 3]))
        ck = r.randint(1, 12)
        form = r.choice(["ns", "ck", "nsp", "both"] + (["none"] if allow_none else []))
        if force_pair and form == "ns":
            form = "nsp"
        return {"ns": ns, "ck": (ck, None), "nsp": (None, ns), "both": (ck, ns), "none": None}[form]

    refi = r.choice([64e6 / 8192, 64e6 / 4096, 32e6 / 8192, round(r.uniform(900, 16000), 2)])
    rfc = lambda: val(40, 400)
    if memtype == "DDR4":
        tREFI = {"1x": refi, "2x": refi / 2, "4x": refi / 4}
        tRFC = {"1x": rfc(), "2x": rfc(), "4x": rfc()}
    else:
        tREFI, tRFC = refi, rfc()
    tech = dict(tREFI=tREFI, tWTR=val(1, 20), tCCD=val(1, 10, True), tRRD=val(1, 15, True), tZQCS=val(20, 120, True))
    spd = dict(tRP=val(5, 30), tRCD=val(5, 30), tWR=val(5, 30), tRFC=tRFC, tFAW=val(10, 60, True), tRAS=val(20, 60, True))
    if spd["tRAS"] is not None and not isinstance(spd["tRAS"], tuple) and isinstance(spd["tRP"], tuple):
        spd["tRP"] = r.choice([spd["tRP"][1] or 12.5, spd["tRP"]]) if spd["tRP"][1] else 12.5   # tRP + tRAS is added by the library
    # get() returns Timing tuples, which the library adds for tRC: any two forms are legal there
    ns = dict(memtype=memtype, nbanks=r.choice([4, 8, 16]), nrows=r.choice([2048, 8192, 32768]), ncols=r.choice([512, 1024]))
    style = r.choice(["objects", "attributes"])
    if style == "objects":
        ns["technology_timings"] = M._TechnologyTimings(**tech)
        ns["speedgrade_timings"] = {"default": M._SpeedgradeTimings(**spd)}
    else:
        for k, v in list(tech.items()) + list(spd.items()):
            if v is not None:
                ns[k] = v
    return type("Synthetic%s" % memtype, (M.SDRAMModule,), ns), style


def run_suite_case(case):
    import json
    import subprocess
    import sys
    import tempfile
    repo = os.environ.get("VERIF_REPO", "/repo")
    here = os.path.dirname(os.path.dirname(os.path.dirname(os.path.abspath(__file__))))
    with tempfile.TemporaryDirectory() as td:
        out = os.path.join(td, "c16.json")
        env = dict(os.environ, VERIF_C16_OUT=out, PYTHONPATH=os.pathsep.join([repo, here, os.path.join(here, ".deps")]))
        tests = [t for t in case["tests"] if os.path.exists(os.path.join(repo, t))]
        try:
            p = subprocess.run([sys.executable, "-m", "pytest", "-q", "-p", "no:cacheprovider", "-p", "vfw.pytest_c16", "--timeout=600"] + tests,
                               cwd=repo, env=env, stdout=subprocess.PIPE, stderr=subprocess.STDOUT, timeout=1500)
        except subprocess.TimeoutExpired:
            return dict(verdict="inconclusive", why="wall-clock watchdog (repository tests)", violations=[], stats={}, nontrivial=False, signature="")
        tail = p.stdout.decode(errors="replace")[-400:]
        if not os.path.exists(out):
            return dict(verdict="inconclusive", why="plugin wrote nothing: " + tail, violations=[], stats={}, nontrivial=False, signature="")
        d = json.load(open(out))
    st = dict(constructions=d["evaluations"], contract_evaluations=d["evaluations"], near_flip=d["near_flip"], result_vectors=0,
              distinct_configs_under_suite=len(d["configs"]), pytest_tail=tail.strip().splitlines()[-1] if tail.strip() else "")
    if d["evaluations"] == 0:
        return dict(verdict="inconclusive", why="contract never evaluated under the repository tests", violations=[], stats=st,
                    nontrivial=False, signature="")
    return dict(verdict="violated" if d["witnesses"] else "held", violations=d["witnesses"][:12], stats=st, nontrivial=True,
                signature="suite|%d" % len(d["configs"]))


def run_case(case):
    if case["kind"] == "suite":
        return run_suite_case(case)
    from litedram import modules as M
    install_contract()
    r = random.Random(case["seed"])
    e0, n0 = COUNTERS["evaluations"], COUNTERS["near_flip"]
    viol = []
    vectors = set()
    built = 0
    if case["kind"] == "class":
        cls = getattr(M, case["cls"])
        clocks = clock_list(cls, case["speedgrade"], case["frm"], case["nlog"], r)
        e0, n0 = COUNTERS["evaluations"], COUNTERS["near_flip"]   # clock_list builds one probe module itself
        kw = {}
        if case["speedgrade"]:
            kw["speedgrade"] = case["speedgrade"]
        if case["frm"]:
            kw["fine_refresh_mode"] = case["frm"]
        for f in clocks:
            try:
                cls(f, case["rate"], **kw)
                built += 1
                vectors.add(LAST.get("vec"))
            except TimingContractBroken as e:
                built += 1
                if len(viol) < 40:
                    viol.append(dict(kind="unsafe-cycle-count", **e.witness))
    elif case["kind"] == "synthetic":
        cls, style = synthetic_class(r)
        clocks = clock_list(cls, None, "1x" if cls.memtype == "DDR4" else None, case["nlog"], r)
        e0, n0 = COUNTERS["evaluations"], COUNTERS["near_flip"]
        rates = ["1:1", "1:2", "1:4", "1:8"]
        frms = ["1x", "2x", "4x"] if cls.memtype == "DDR4" else [None]
        for f in clocks:
            rate, frm = r.choice(rates), r.choice(frms)
            try:
                cls(f, rate, **({"fine_refresh_mode": frm} if frm else {}))
                built += 1
                vectors.add(LAST.get("vec"))
            except TimingContractBroken as e:
                built += 1
                if len(viol) < 40:
                    viol.append(dict(kind="unsafe-cycle-count", style=style, **e.witness))
    else:
        spd_dir = os.path.join(os.environ.get("VERIF_REPO", "/repo"), "test", "spd_data")
        data = load_spd_csv(os.path.join(spd_dir, case["file"]))
        if case.get("variant"):
            data = spd_variant(data, random.Random(case["seed"]))
        ref = spd_reference(data)
        clocks = [10e6 * (40.0 ** (i / (case["nlog"] - 1))) for i in range(case["nlog"])]
        frms = ["1x", "2x", "4x"] if data[2] == 0x0c else [None]
        for frm in frms:
            ref_f = dict(ref)
            if data[2] == 0x0c:
                ref_f["tRFC"] = ref["tRFC_" + frm]
                ref_f["tREFI"] = (0, ref["tREFI"][1] / {"1x": 1, "2x": 2, "4x": 4}[frm])
            for f in clocks:
                try:
                    # the reference for the contract is the independent decode of the SPD bytes
                    M.SDRAMModule._verif_reference = ref_f
                    M.SDRAMModule.from_spd_data(data, f, **({"fine_refresh_mode": frm} if frm else {}))
                    built += 1
                    vectors.add(LAST.get("vec"))
                except TimingContractBroken as e:
                    built += 1
                    if len(viol) < 40:
                        viol.append(dict(kind="unsafe-cycle-count-spd", file=case["file"], **e.witness))
                finally:
                    M.SDRAMModule._verif_reference = None
    ev = COUNTERS["evaluations"] - e0
    st = dict(constructions=built, contract_evaluations=ev, near_flip=COUNTERS["near_flip"] - n0, result_vectors=len(vectors))
    if ev == 0 or ev != built:
        return dict(verdict="inconclusive", why="contract evaluated %d times for %d constructions" % (ev, built), violations=[],
                    stats=st, nontrivial=False, signature="")
    # group witnesses by (timing, problem) so that one mechanism is one line
    return dict(verdict="violated" if viol else "held", violations=viol[:12], stats=st,
                nontrivial=st["near_flip"] > 0, signature=case["name"] + "|%d" % len(vectors))


def aggregate(results, cases):
    tot = dict(constructions=0, contract_evaluations=0, near_flip=0, result_vectors=0)
    for r in results:
        for k in tot:
            tot[k] += (r.get("stats") or {}).get(k, 0) or 0
    samples = [dict(case=r["name"], verdict=r["verdict"], stats=r.get("stats")) for r in results[:3]]
    return dict(observed=tot, samples=samples)


def summary(cov):
    o = cov["observed"]
    return "  observed: %d constructions, %d contract evaluations, %d with a ceiling within 5%% of flipping, %d distinct result vectors" % (
        o["constructions"], o["contract_evaluations"], o["near_flip"], o["result_vectors"])


# ---------------------------------------------------------------------------------------------- SPD reference
def spd_variant(b, r):
    """re-draws the timing bytes of an SPD image (JEDEC annex K / L field layout); everything else is left alone"""
    b = list(b)

    def fine():
        return r.choice([0, 0, r.randrange(0, 60), 256 - r.randrange(1, 60)])      # signed 8-bit offset in FTB units
    if b[2] == 0x0c:       # DDR4
        b[25], b[26] = r.randrange(90, 130), r.randrange(90, 130)                      # tRCD, tRP (MTB = 125 ps)
        tras, trc = r.randrange(250, 320), r.randrange(350, 470)
        b[27], b[28], b[29] = ((trc >> 8) << 4) | (tras >> 8), tras & 0xFF, trc & 0xFF
        for lo, v in ((30, r.choice([1280, 2080, 2800, 4400, 4400])), (32, r.choice([880, 1280, 2080, 2800])), (34, r.choice([720, 880, 1280, 2080]))):
            b[lo], b[lo + 1] = v & 0xFF, v >> 8                                           # tRFC1 / 2 / 4 (up to 550 ns)
        tfaw = r.choice([104, 168, 200, 240, 280])
        b[36], b[37] = (b[36] & 0xF0) | (tfaw >> 8), tfaw & 0xFF
        b[38], b[39], b[40] = r.randrange(20, 50), r.randrange(30, 62), r.randrange(35, 55)   # tRRD_S, tRRD_L, tCCD_L
        twr = r.choice([120, 120, 160])
        b[41], b[42] = (b[41] & 0xF0) | (twr >> 8), twr & 0xFF
        wtrs, wtrl = r.choice([20, 24]), r.choice([60, 64, 300])
        b[43], b[44], b[45] = ((wtrl >> 8) << 4) | (wtrs >> 8), wtrs & 0xFF, wtrl & 0xFF
        for i in (117, 118, 119, 120, 121, 122):
            b[i] = fine()
    else:                  # DDR3
        b[17], b[18], b[19], b[20] = r.randrange(100, 130), r.randrange(90, 125), r.randrange(40, 90), r.randrange(90, 125)
        tras, trc = r.randrange(260, 310), r.randrange(360, 420)
        b[21], b[22], b[23] = ((trc >> 8) << 4) | (tras >> 8), tras & 0xFF, trc & 0xFF
        trfc = r.choice([720, 880, 1280, 2080, 2800])
        b[24], b[25] = trfc & 0xFF, trfc >> 8
        b[26] = r.randrange(50, 70)
        tfaw = r.choice([240, 280, 320, 360, 400])
        b[28], b[29] = (b[28] & 0xF0) | (tfaw >> 8), tfaw & 0xFF
        b[36], b[37] = fine(), fine()
    return b


def load_spd_csv(path):
    import csv
    data = [0] * 512
    with open(path) as f:
        for row in csv.DictReader(f):
            a = row["Byte Number"]
            if len(a.split("-")) == 1:
                data[int(a)] = int(row["Byte Value"], 16)
    return data


def _s8(x):
    return x - 256 if x & 0x80 else x


def spd_reference(b):
    """Independent decode of DDR3 (annex K) / DDR4 (annex L) SPD timing bytes -> name -> (ck, ns)."""
    F = Fraction
    if b[2] == 0x0b:
        ftb = F(b[9] >> 4, b[9] & 0xF) / 1000   # ps -> ns
        mtb = F(b[10], b[11])

        def t(m, f=0):
            return float(m * mtb + _s8(f) * ftb)
        tras = t(((b[21] & 0x0F) << 8) | b[22])
        return dict(
            tRP=(0, t(b[20], b[37])), tRCD=(0, t(b[18], b[36])), tWR=(0, t(b[17])),
            tRFC=(0, t((b[25] << 8) | b[24])), tFAW=(0, t(((b[28] & 0x0F) << 8) | b[29])), tRAS=(0, tras),
            tWTR=(4, t(b[26])), tRRD=(4, t(b[19])), tCCD=(4, 0), tZQCS=(64, 80), tREFI=(0, 64e6 / 8192))
    if b[2] == 0x0c:
        mtb, ftb = F(125, 1000), F(1, 1000)

        def t(m, f=0):
            return float(m * mtb + _s8(f) * ftb)
        width = {0: 4, 1: 8, 2: 16, 3: 32}[b[12] & 7]
        colbits = {0: 9, 1: 10, 2: 11, 3: 12}[b[5] & 7]
        page = (1 << colbits) * width // 8
        tfaw_ck = {512: 16, 1024: 20, 2048: 28}[page]
        return dict(
            tRP=(0, t(b[26], b[121])), tRCD=(0, t(b[25], b[122])), tWR=(0, t(((b[41] & 0x0F) << 8) | b[42])),
            tRFC_1x=(0, t((b[31] << 8) | b[30])), tRFC_2x=(0, t((b[33] << 8) | b[32])), tRFC_4x=(0, t((b[35] << 8) | b[34])),
            tFAW=(tfaw_ck, t(((b[36] & 0x0F) << 8) | b[37])), tRAS=(0, t(((b[27] & 0x0F) << 8) | b[28])),
            tWTR=(4, t(((b[43] >> 4) << 8) | b[45])), tRRD=(4, t(b[39], b[118])), tCCD=(4, t(b[40], b[117])),
            tZQCS=(128, 80), tREFI=(0, 64e6 / 8192))
    raise ValueError("unknown SPD memory type")
