"""C08 -- clock-domain-crossing ports preserve commands, data and order.  See DESIGN.md section 3/C08."""
import random

LEVEL = "exploration"
BATCH = 8
BATCH_TIMEOUT = 3000
RULE = ("case = (user/sys clock period pair and phases: equal, 2:1, 1:2, 3:7, 7:3, near-equal drifting pairs, random; FIFO "
        "depths; traffic class; back-pressure profile of the abstract core stub; user-side back-pressure on returned read data "
        "(rdata.ready random, at most rdata_depth-2 reads kept outstanding) in half of the reading cases; seed); LiteDRAMNativePortCDC between a "
        "user-domain contract master and the sys-domain pulsed core stub, two free-running clocks; per channel the sequence "
        "accepted on the source side must equal the sequence delivered on the destination side (exactly once, in order, every payload field incl. the random cmd.last hint, "
        "nothing invented) and user-side memory semantics must hold; non-trivial iff >=100 commands and >=40 words per data "
        "channel crossed and back-pressure was observed on the user side; distinct = distinct (clock pair, depths, class)")
ASSUMPTIONS = [
    "Migen simulator semantics (no metastability; gray-code synchronisers are simulated as plain registers)",
    "abstract core stub never stricter than the real core (wdata strobe >= 3 cycles after accept, read data >= 5)",
    "the stub keeps at most `max_outstanding` commands in flight; the real core can hold nbanks*(depth+2)",
]
MIN_NONTRIVIAL = {"quick": 10, "thorough": 40}
PAIRS = [(10, 10), (10, 20), (20, 10), (6, 14), (14, 6), (10, 11), (11, 10), (97, 101), (101, 97), (10, 70), (70, 10), (10, 30)]


def cases(tier, seed):
    n = 96 if tier == "quick" else 720
    out = []
    for k in range(n):
        r = random.Random("C08/%d/%s/%d" % (seed, tier, k))
        if k % 4 == 3:
            psys, pusr = 2 * r.randint(3, 40), 2 * r.randint(3, 40)
        else:
            psys, pusr = PAIRS[(k // 4 * 3 + k % 4) % len(PAIRS)]
            psys, pusr = psys * 2, pusr * 2
        # the real core keeps at most cmd_buffer_depth + 2 commands of one port in flight (the port is locked to one bank)
        cbd = r.choice([2, 4, 8, 8, 8, 16])
        if r.random() < 0.55:
            depths = (4, 16, 16)            # what crossbar.get_port(clock_domain=...) builds
        else:
            depths = (r.choice([4, 8]), r.choice([4, 8, 16, 32]), r.choice([4, 8, 16, 32]))
        c = dict(psys=psys, pusr=pusr, phsys=r.randrange(psys), phusr=r.randrange(pusr),
                 cmd_depth=depths[0], wdata_depth=depths[1], rdata_depth=depths[2], cmd_buffer_depth=cbd,
                 mode=["both", "both", "write", "read"][k % 4], nops=r.randint(120, 260),
                 cls=r.choice(["mixed", "mixed", "streams", "same-address"]),
                 cmd_ready_prob=r.choice([1.0, 0.7, 0.3]), extra_lat=r.choice([(0, 0), (0, 8), (0, 40)]),
                 long_stall=r.choice([0, 0.005, 0.02]), max_outstanding=cbd + 2,
                 gap_scale=r.choice([0.1, 0.5, 1.0]), master_mode=r.choice(["fifo", "strict"]), seed="C08/%d/%d" % (seed, k))
        # user-side back-pressure on read data (the user port is a stream): a master that stalls its read channel and keeps no
        # more reads outstanding than the crossing's read FIFO can hold
        c["rdata_ready_prob"] = r.choice([0.7, 0.3, 0.1]) if (k // 2) % 2 == 1 and c["mode"] != "write" else None
        c["name"] = "%04d-sys%d-usr%d-%s-%s-d%d.%d.%d-o%d%s" % (k, psys, pusr, c["mode"], c["cls"], c["cmd_depth"], c["wdata_depth"],
                                                              c["rdata_depth"], c["max_outstanding"], "-rbp" if c["rdata_ready_prob"] else "")
        c["cost"] = c["nops"] * max(1, pusr // psys)
        c["kind"] = "cdc"
        out.append(c)
    # the crossing as the crossbar builds it, on the real core (get_port(clock_domain=...), optionally width-converted)
    ncore = 12 if tier == "quick" else 80
    for k in range(ncore):
        r = random.Random("C08/core/%d/%s/%d" % (seed, tier, k))
        psys, pusr = PAIRS[(k * 5) % len(PAIRS)]
        cbd = [8, 16, 4, 16][k % 4]
        c = dict(kind="core", psys=2 * psys, pusr=2 * pusr, phsys=r.randrange(2 * psys), phusr=r.randrange(2 * pusr),
                 cmd_buffer_depth=cbd, nops=r.randint(150, 260), cls=["mixed", "one-row-reads", "one-row-writes", "streams"][k % 4],
                 data_width=r.choice([None, None, 8, 64]) if k % 3 == 2 else None, refresh=bool(k % 2), gap_scale=r.choice([0.1, 0.5]),
                 master_mode=r.choice(["fifo", "strict"]), seed="C08/core/%d/%d" % (seed, k))
        c["rdata_ready_prob"] = r.choice([0.5, 0.2]) if k % 2 == 1 and not c["data_width"] else None
        if c["data_width"]:
            c["cls"] = "streams"     # converter class M only (C07's open finding is not C08's business)
        c["name"] = "core%03d-sys%d-usr%d-cbd%d-%s-dw%s" % (k, c["psys"], c["pusr"], cbd, c["cls"], c["data_width"])
        c["cost"] = 5000
        out.append(c)
    return out


def run_core_case(c):
    """LiteDRAMNativePortCDC as inserted by crossbar.get_port(clock_domain="user") on the real controller + reference DRAM"""
    from .. import shim  # noqa
    from ..core import CoreDUT, AddressMap, run_sim
    from ..wholecore import build_settings, heavy_gap, rand_wemask
    from ..refdram import RefDRAM
    from ..ports import Op, MemOracle, NativeMaster
    r = random.Random(c["seed"])
    mem = dict(kind="synthetic", memtype="SDR", nphases=1, databits=32, bankbits=2, rowbits=12, colbits=9, read_latency=4,
               write_latency=0, timing=dict(tRP=2, tRCD=2, tWR=2, tWTR=2, tREFI=110, tRFC=20, tFAW=None, tCCD=1, tRRD=None,
                                            tRC=None, tRAS=None, tZQCS=None))
    phy, geom, timing, clk, _ = build_settings(mem)
    cs = dict(cmd_buffer_depth=c["cmd_buffer_depth"], with_refresh=c["refresh"])
    cd = c.get("clock_domain", "user")
    spec = dict(clock_domain=cd)
    if c.get("reverse"):
        spec["reverse"] = True
    if c["data_width"]:
        spec["data_width"] = c["data_width"]
    dut = CoreDUT(phy, geom, timing, clk, cs, [spec])
    port = dut.ports[0]
    core_bytes = phy.dfi_databits // 8
    ub = port.data_width // 8
    amap = AddressMap("SDR", 1, 1, geom.bankbits, geom.rowbits, geom.colbits, core_bytes, 0)
    ref = RefDRAM(dut.dfi, 1, 1, geom.bankbits, phy.dfi_databits, phy.read_latency, phy.write_latency, 0, 0)

    def init_fn(a):
        out = bytearray()
        for i in range(ub):
            ba = a * ub + i
            rank, bank, row, colw = amap.locate(ba // core_bytes)
            out.append(ref.get(rank, bank, row, colw)[ba % core_bytes])
        return bytes(out)

    # with reverse=True the converter presents a (consistent) permuted byte view: initial contents are then learnt from
    # the first read instead of being derived from the DRAM layout
    oracle = MemOracle(ub, init=None if c.get("reverse") else init_fn)
    aw = port.address_width
    scale = max(1, core_bytes // ub) if ub < core_bytes else 1
    row_base = r.randrange(1 << (aw - 10)) << 10
    ops = []
    a = r.randrange(1 << aw)
    for k in range(c["nops"]):
        if c["cls"] == "one-row-reads":
            a, we = row_base + r.randrange(64), (k < 8)
        elif c["cls"] == "one-row-writes":
            a, we = row_base + r.randrange(64), (k % 16 != 15)
        elif c["cls"] == "streams":
            a, we = (a + 1) % (1 << aw), (k // 24) % 2 == 0
        else:
            a, we = (row_base + r.randrange(256) if r.random() < 0.8 else r.randrange(1 << aw)), r.random() < 0.5
        o = Op(heavy_gap(r, c["gap_scale"]), we, a)
        if we:
            o.data = r.getrandbits(8 * ub)
            o.wemask = rand_wemask(r, ub, "mixed")
        ops.append(o)
    ops[-1].last = 1
    violations = []
    m = NativeMaster(port, ops, 0, oracle, c["master_mode"], violations)
    if r.random() < 0.5:
        m.scramble_rng = random.Random(c["seed"] + "/scramble")
    m.strobe_semantics = False
    if c.get("rdata_ready_prob"):
        m.rdata_ready_prob, m.rdata_rng = c["rdata_ready_prob"], random.Random(c["seed"] + "/rbp")
        m.max_reads_outstanding = 14          # get_port(clock_domain=...) builds a 16-deep read FIFO
    m.use_last = bool(c["data_width"]) and ub < core_bytes
    state = {}
    ratio = max(1, c["pusr"] // c["psys"] + 1)

    def done_fn():
        cyc = ref.cycle
        act = (len(m.accepted), m.rbeats, m.wbeats)
        if act != state.get("act"):
            state["act"] = act
            state["t_act"] = cyc
        if m.idle() and cyc - state.get("t_act", 0) > 300 + 20 * ratio and not c["refresh"]:
            return True
        if m.idle() and c["refresh"] and cyc - state.get("t_idle", cyc) > 300 + 20 * ratio:
            return True
        if m.idle() and "t_idle" not in state:
            state["t_idle"] = cyc
        if (m.rq or m.wq or m._cmd_valid) and cyc - state.get("t_act", 0) > 4000 * ratio:
            state["hang"] = True
            return True
        return False

    def flusher():
        yield "passive"
        while True:
            yield port.flush.eq(1 if m.issued_all else 0)
            yield

    if cd == "sys":
        cycles, reason = run_sim(dut, [ref.process(), m.process(), flusher()], done_fn, 400000, wall_limit=1200)
    else:
        clocks = {"sys": (c["psys"], c["phsys"]), "user": (c["pusr"], c["phusr"])}
        cycles, reason = run_sim(dut, [ref.process()], done_fn, 400000, clocks=clocks, wall_limit=1200,
                                 extra={"user": [m.process(), flusher()]})
    if reason == "wall":
        return dict(verdict="inconclusive", why="wall-clock watchdog", violations=[], stats={}, nontrivial=False, signature="")
    v = list(violations)
    if state.get("hang") or reason == "cycle-cap":
        v.append(dict(kind="no-progress", reads_waiting=len(m.rq), writes_waiting=len(m.wq), cmd_stuck=bool(m._cmd_valid),
                      accepted=len(m.accepted), of=len(ops)))
    else:
        nr = sum(1 for o in m.accepted if not o.we)
        if m.rbeats != nr:
            v.append(dict(kind="read-beat-count", reads=nr, beats=m.rbeats))
    need = 4 + c["cmd_buffer_depth"] + 2
    over_r, over_w = 16 < need, 16 < need + 1
    st = dict(cmds=len(m.accepted), rwords=m.rbeats, wwords=m.wbeats, reads_checked=m.checked_reads, cycles=cycles,
              user_cmd_stalls=m.cmd_stalls, user_wdata_stalls=m.wdata_stalls, dfi_rd=len(ref.rd_log), dfi_wr=len(ref.wr_log),
              user_rdata_stalled_with_valid=m.rdata_stalled_with_valid,
              refs=ref.counts.get("REF", 0))
    st["class"] = "overcommitted" if (over_r or over_w) and not c["data_width"] else "bounded"
    for x in v:
        x["overcommitted_rdata"] = over_r
        x["overcommitted_wdata"] = over_w
        x["on_real_core"] = True
        x["cmd_buffer_depth"] = c["cmd_buffer_depth"]
    nontrivial = st["cmds"] >= 100 and (m.cmd_stalls + m.wdata_stalls) > 0
    sig = "core|" + "|".join(str(x) for x in (c["psys"], c["pusr"], c["cmd_buffer_depth"], c["cls"], c["data_width"]))
    return dict(verdict="violated" if v else "held", violations=v[:8], stats=st, nontrivial=bool(nontrivial) or bool(v), signature=sig)


def run_case(c):
    if c.get("kind") == "core":
        return run_core_case(c)
    from .. import shim  # noqa
    from migen import Module
    from litedram.common import LiteDRAMNativePort
    from litedram.frontend.adapter import LiteDRAMNativePortCDC
    from ..ports import Op, MemOracle, NativeMaster
    from ..stub import CoreStub, Store
    from ..core import run_sim
    from ..wholecore import heavy_gap, rand_wemask
    r = random.Random(c["seed"])
    aw, dw = r.choice([12, 12, 28]), 32        # small and large address spaces (the top address bits must cross too)
    if random.Random(c["seed"] + "/wide").random() < 0.25:
        dw = 256                                # more byte enables than address bits

    class DUT(Module):
        def __init__(self):
            self.port_user = LiteDRAMNativePort(c["mode"], aw, dw, clock_domain="user")
            self.port_sys = LiteDRAMNativePort(c["mode"], aw, dw, clock_domain="sys")
            self.submodules.cdc = LiteDRAMNativePortCDC(self.port_user, self.port_sys, cmd_depth=c["cmd_depth"],
                                                        wdata_depth=c["wdata_depth"], rdata_depth=c["rdata_depth"])

    dut = DUT()
    nb = dw // 8
    store = Store(nb)
    stub = CoreStub([dut.port_sys], store, r, cmd_ready_prob=c["cmd_ready_prob"], extra_lat=tuple(c["extra_lat"]),
                    long_stall=c["long_stall"], max_outstanding=c["max_outstanding"])
    oracle = MemOracle(nb, init=lambda a: bytes(store.get(a)))
    hot = [r.randrange(1 << aw) for _ in range(6)]
    ops = []
    a = r.randrange(1 << aw)
    for k in range(c["nops"]):
        if c["cls"] == "streams":
            a = (a + 1) % (1 << aw) if r.random() < 0.9 else r.randrange(1 << aw)
        elif c["cls"] == "same-address":
            a = r.choice(hot[:2])
        else:
            a = r.choice(hot) if r.random() < 0.7 else r.randrange(1 << aw)
        we = {"write": True, "read": False}.get(c["mode"], r.random() < 0.5)
        o = Op(heavy_gap(r, c["gap_scale"]), we, a, last=int(r.random() < 0.3))
        if we:
            o.data = r.getrandbits(dw)
            o.wemask = rand_wemask(r, nb, "mixed")
        ops.append(o)
    violations = []
    m = NativeMaster(dut.port_user, ops, 0, oracle, c["master_mode"], violations)
    if r.random() < 0.5:
        m.scramble_rng = random.Random(c["seed"] + "/scramble")
    m.strobe_semantics = False
    m.use_last = True      # the end-of-burst hint is part of the command payload (consumed by an up-converter behind the crossing)
    if r.random() < 0.35:
        m.data_ahead = r.choice([2, 8, 24])     # write data streamed ahead of the commands: the data FIFO can fill before the command FIFO
    if c.get("rdata_ready_prob"):
        m.rdata_ready_prob, m.rdata_rng = c["rdata_ready_prob"], random.Random(c["seed"] + "/rbp")
        m.max_reads_outstanding = max(1, c["rdata_depth"] - 2)
    state = {}
    ratio = max(1, c["pusr"] // c["psys"] + 1)
    bound = 3000 * ratio

    def done_fn():
        cyc = stub.cycle
        act = (len(m.accepted), m.rbeats, m.wbeats, stub.seq, len(stub.wbeats[0]), len(stub.rbeats[0]))
        if act != state.get("act"):
            state["act"] = act
            state["t_act"] = cyc
        if m.idle() and stub.outstanding() == 0 and cyc - state.get("t_act", 0) > 400 + 20 * ratio:
            return True
        if cyc - state.get("t_act", 0) > bound:
            state["hang"] = True
            return True
        return False

    clocks = {"sys": (c["psys"], c["phsys"]), "user": (c["pusr"], c["phusr"])}
    cycles, reason = run_sim(dut, [stub.process()], done_fn, 400000, clocks=clocks, wall_limit=900, extra={"user": [m.process()]})
    if reason == "wall":
        return dict(verdict="inconclusive", why="wall-clock watchdog", violations=[], stats={}, nontrivial=False, signature="")
    v = list(violations)
    v += stub.events
    if state.get("hang") or reason == "cycle-cap":
        v.append(dict(kind="no-progress", reads_waiting=len(m.rq), writes_waiting=len(m.wq), cmd_stuck=bool(m._cmd_valid),
                      accepted=len(m.accepted), of=len(ops), stub_outstanding=stub.outstanding()))
    # channel monitors: source-side sequence == destination-side sequence
    src_cmd = [(int(o.we), o.addr, int(o.last)) for o in m.accepted]
    dst_cmd = [(we, addr, la) for (_, we, addr), la in zip(stub.accepted[0], stub.accepted_last[0])]
    if src_cmd[:len(dst_cmd)] != dst_cmd or (not v and len(src_cmd) != len(dst_cmd)):
        k = next((i for i in range(min(len(src_cmd), len(dst_cmd))) if src_cmd[i] != dst_cmd[i]), min(len(src_cmd), len(dst_cmd)))
        v.append(dict(kind="cmd-channel-differs", index=k, source=src_cmd[k:k + 2], destination=dst_cmd[k:k + 2],
                      n_source=len(src_cmd), n_destination=len(dst_cmd)))
    src_w = m.wdata_taken
    dst_w = [(d, we) for (_, _, d, we, valid) in stub.wbeats[0] if valid]
    if src_w[:len(dst_w)] != dst_w or (not v and len(src_w) != len(dst_w)):
        k = next((i for i in range(min(len(src_w), len(dst_w))) if src_w[i] != dst_w[i]), min(len(src_w), len(dst_w)))
        v.append(dict(kind="wdata-channel-differs", index=k, n_source=len(src_w), n_destination=len(dst_w)))
    src_r = [d for (_, _, d, taken) in stub.rbeats[0] if taken]
    dst_r = m.rdata_log
    if src_r[:len(dst_r)] != dst_r or (not v and len(src_r) != len(dst_r)):
        k = next((i for i in range(min(len(src_r), len(dst_r))) if src_r[i] != dst_r[i]), min(len(src_r), len(dst_r)))
        v.append(dict(kind="rdata-channel-differs", index=k, n_source=len(src_r), n_destination=len(dst_r)))
    st = dict(cmds=len(dst_cmd), wwords=len(dst_w), rwords=len(dst_r), reads_checked=m.checked_reads, cycles=cycles,
              user_cmd_stalls=m.cmd_stalls, user_wdata_stalls=m.wdata_stalls, max_outstanding_seen=stub.max_out_seen,
              user_rdata_stalled_with_valid=m.rdata_stalled_with_valid,
              underruns=sum(1 for e in stub.events if e["kind"] == "wdata-underrun"),
              drops=sum(1 for e in stub.events if e["kind"] == "rdata-dropped"))
    need_w = 40 if c["mode"] != "read" else 0
    need_r = 40 if c["mode"] != "write" else 0
    nontrivial = st["cmds"] >= 100 and st["wwords"] >= need_w and st["rwords"] >= need_r and (m.cmd_stalls + m.wdata_stalls) > 0
    # finding split: the CDC FIFOs can absorb everything that can be in flight (class 'bounded') or not ('overcommitted')
    need_r_depth = c["cmd_depth"] + c["max_outstanding"]
    need_w_depth = c["cmd_depth"] + c["max_outstanding"] + 1
    over_r = c["mode"] != "write" and c["rdata_depth"] < need_r_depth
    if c.get("rdata_ready_prob"):
        over_r = False       # this master never has more reads outstanding than the read FIFO holds
    over_w = c["mode"] != "read" and c["wdata_depth"] < need_w_depth
    st["class"] = "overcommitted" if (over_r or over_w) else "bounded"
    for x in v:
        x["overcommitted_rdata"] = over_r
        x["overcommitted_wdata"] = over_w
        x["clock_ratio_user_over_sys"] = round(c["pusr"] / c["psys"], 3)
        x["max_outstanding"] = c["max_outstanding"]
        x["depths"] = (c["cmd_depth"], c["wdata_depth"], c["rdata_depth"])
    sig = "|".join(str(x) for x in (c["psys"], c["pusr"], c["cmd_depth"], c["wdata_depth"], c["rdata_depth"], c["mode"], c["cls"]))
    return dict(verdict="violated" if v else "held", violations=v[:8], stats=st, nontrivial=bool(nontrivial) or bool(v), signature=sig)


def aggregate(results, cases):
    tot = dict(cmds=0, wwords=0, rwords=0, reads_checked=0, user_cmd_stalls=0, user_wdata_stalls=0)
    for r in results:
        for k in list(tot):
            tot[k] += (r.get("stats") or {}).get(k, 0) or 0
    pairs = sorted(set((c["psys"], c["pusr"]) for c in cases))
    tot["real_core_cases"] = sum(1 for c in cases if c.get("kind") == "core")
    split = {}
    for r in results:
        k = (r.get("stats") or {}).get("class")
        if k:
            split[k] = split.get(k, 0) + 1
    tot["split"] = split
    by = {c["name"]: c for c in cases}
    samples = [dict(case=by.get(r["name"]), verdict=r["verdict"], stats=r.get("stats")) for r in results[:3]]
    return dict(observed=tot, clock_pairs=[list(p) for p in pairs], samples=samples)


def summary(cov):
    o = cov["observed"]
    return "  split: %s\n  observed: %d commands, %d write words, %d read words crossed over %d clock pairs; %d reads checked; user-side stalls cmd=%d wdata=%d" % (
        o.get("split"), o["cmds"], o["wwords"], o["rwords"], len(cov["clock_pairs"]), o["reads_checked"], o["user_cmd_stalls"], o["user_wdata_stalls"])
