"""C11 -- Avalon-MM port: bursts and single accesses keep memory semantics.  See DESIGN.md section 3/C11."""
import random

LEVEL = "exploration"
BATCH = 10
BATCH_TIMEOUT = 3000
RULE = ("[CORE CASES: a share of the cases (names core*) runs the same front-end and oracle on a port of the real LiteDRAMCrossbar + LiteDRAMController with the reference DRAM on DFI, refresh running, DFI protocol events of the reference model added to the witnesses] case = (bus:port width ratio, base address, max_burst_length 2..16, access mix: singles / write bursts / read bursts / "
        "mixed, master behaviour inside write bursts: no gaps | idle gaps between beats | gaps and address/burstcount "
        "scrambled after the first beat (all legal Avalon-MM), memory-side stall profile, seed) with LiteDRAMAvalonMM2Native on "
        "the pulsed core stub; oracle: every accepted write beat (write & !waitrequest) lands exactly once at "
        "start + i under its byte enables, every read burst of n returns exactly n readdatavalid beats with the data of "
        "consecutive addresses in order (byte-level sequential model), final store == model, bounded progress per access; "
        "non-trivial iff >=30 accesses completed incl. >=1 write burst and >=1 read burst and waitrequest stalled an offered "
        "beat at least once; distinct = distinct (ratio, max burst, class, gap behaviour)")
ASSUMPTIONS = [
    "Migen simulator semantics; abstract core stub never stricter than the real core",
    "Avalon-MM: within a write burst the master may deassert write between beats; address and burstcount are only "
    "meaningful on the first beat; addresses are in bus words (as this front-end documents)",
]
MIN_NONTRIVIAL = {"quick": 10, "thorough": 40}
CLASSES = ["singles", "write-bursts", "read-bursts", "mixed"]
GAPS = ["none", "none", "gaps", "gaps-scramble"]
WIDTHS = [(32, 32), (32, 64), (32, 128), (64, 32), (128, 32), (16, 64), (64, 64)]


def cases(tier, seed):
    n = 224 if tier == "quick" else 1400
    out = []
    for k in range(n):
        r = random.Random("C11/%d/%s/%d" % (seed, tier, k))
        avw, pw = WIDTHS[k % len(WIDTHS)]
        c = dict(avw=avw, pw=pw, base=r.choice([0, 0, 0x1000, 0x100000]), max_burst=r.choice([2, 4, 8, 16, 16, 3, 5, 12]),
                 cls=CLASSES[(k // len(WIDTHS)) % len(CLASSES)], gaps=GAPS[(k // (len(WIDTHS) * len(CLASSES))) % len(GAPS)],
                 nacc=r.randint(25, 60), cmd_ready_prob=r.choice([1.0, 0.7, 0.3]), extra_lat=r.choice([(0, 0), (0, 8), (0, 30)]),
                 long_stall=r.choice([0, 0, 0.01]), idle=r.choice([0, 0, 3]), aligned=bool(r.random() < 0.6),
                 seed="C11/%d/%d" % (seed, k))
        if pw > avw and c["max_burst"] < pw // avw:
            c["max_burst"] = pw // avw
        c["long_bursts"] = bool(k % 2)
        # address step between the beats of a burst (constructor parameter, default 1); on the equal / down-converting paths only
        c["burst_increment"] = r.choice([1, 1, 1, 2, 4]) if avw >= pw else 1
        c["name"] = "%04d-av%d-p%d-b%d-%s-%s%s" % (k, avw, pw, c["max_burst"], c["cls"], c["gaps"], "-long" if c["long_bursts"] else "")
        c["cost"] = c["nacc"] * 4
        out.append(c)
    # the bridge on a port of the real crossbar + controller + reference DRAM
    core_widths = [(32, 32), (64, 32), (32, 64), (64, 64), (16, 32), (128, 32)]
    for k in range(12 if tier == "quick" else 90):
        r = random.Random("C11/%d/%s/core/%d" % (seed, tier, k))
        avw, pw = core_widths[k % len(core_widths)]
        c = dict(core=True, avw=avw, pw=pw, base=r.choice([0, 0x1000, 0x100000]), max_burst=r.choice([2, 4, 8, 16]),
                 cls=CLASSES[(k // 2) % len(CLASSES)], gaps=["none", "none", "none", "gaps"][k % 4], nacc=r.randint(25, 45),
                 cmd_ready_prob=1.0, extra_lat=(0, 0), long_stall=0, idle=r.choice([0, 0, 3]), aligned=bool(r.random() < 0.6),
                 cmd_buffer_depth=r.choice([4, 8, 16]), refresh=(k % 6 != 5), seed="C11/%d/core/%d" % (seed, k))
        if pw > avw and c["max_burst"] < pw // avw:
            c["max_burst"] = pw // avw
        c["long_bursts"] = bool(k % 3 == 0)
        c["name"] = "core%03d-av%d-p%d-b%d-%s-%s%s" % (k, avw, pw, c["max_burst"], c["cls"], c["gaps"], "-long" if c["long_bursts"] else "")
        c["cost"] = c["nacc"] * 24
        out.append(c)
    return out


def run_case(c):
    from .. import shim  # noqa
    from migen import Module
    from litex.soc.interconnect.avalon import AvalonMMInterface
    from litedram.common import LiteDRAMNativePort
    from litedram.frontend.avalon import LiteDRAMAvalonMM2Native
    from ..stub import CoreStub, Store
    from ..core import run_sim
    r = random.Random(c["seed"])
    avw, pw = c["avw"], c["pw"]
    avb, pb = avw // 8, pw // 8
    aw_port = r.choice([14, 14, 24])

    class DUT(Module):
        def __init__(self):
            self.av = AvalonMMInterface(data_width=avw, adr_width=30)
            self.port = LiteDRAMNativePort("both", aw_port, pw)
            self.submodules.bridge = LiteDRAMAvalonMM2Native(self.av, self.port, max_burst_length=c["max_burst"], base_address=c["base"],
                                                             burst_increment=c.get("burst_increment", 1))

    if c.get("core"):
        from ..corebackend import CoreBackend
        stub = CoreBackend(1, databits=pw, refresh=c["refresh"], cmd_buffer_depth=c["cmd_buffer_depth"])
        dut = stub.dut
        dut.av = AvalonMMInterface(data_width=avw, adr_width=30)
        dut.submodules.bridge = LiteDRAMAvalonMM2Native(dut.av, stub.ports[0], max_burst_length=c["max_burst"], base_address=c["base"],
                                                             burst_increment=c.get("burst_increment", 1))
        store = stub.store
        mem_procs = stub.processes()
        aw_port = stub.ports[0].address_width
    else:
        dut = DUT()
        store = Store(pb)
        stub = CoreStub([dut.port], store, r, cmd_ready_prob=c["cmd_ready_prob"], extra_lat=tuple(c["extra_lat"]), long_stall=c["long_stall"])
        mem_procs = [stub.process()]
    av = dut.av
    inc = c.get("burst_increment", 1)
    off = c["base"] // avb
    span = 1 << (aw_port + (pb.bit_length() - 1) - (avb.bit_length() - 1))       # the whole port, top address bit included
    hot = [r.randrange(span - 400) for _ in range(4)]
    # one hot spot just below a 4 KiB boundary and one just below a 2^16-word boundary (bursts that carry into upper bits)
    hot[1] = min(span - 400, ((hot[1] >> 10) << 10) + (4096 // avb) - r.randrange(1, 12))
    hot[2] = min(span - 400, ((hot[2] >> 16) << 16) + (1 << 16) - r.randrange(1, 12)) if span > (1 << 17) else hot[2]
    model = {}
    res = dict(v=[], done=0, wbursts=0, rbursts=0, stalled=0, gaps_used=0, beats_w=0, beats_r=0)
    state = dict(done=False)
    full = (1 << avb) - 1

    def init_byte(ba):
        return store.pattern(ba // pb, pb)[ba % pb]

    def rd_model(ba):
        return model.get(ba, init_byte(ba))

    BOUND = 4000

    scr = r.random() < 0.5      # half of the masters drive garbage on address / writedata / byteenable / burstcount while idle

    def garbage():
        if not scr:
            return []
        return [av.address.eq(r.getrandbits(len(av.address))), av.writedata.eq(r.getrandbits(avw)), av.byteenable.eq(r.getrandbits(avb)),
                av.burstcount.eq(r.randint(0, 255))]

    def main():
        yield [av.read.eq(0), av.write.eq(0), av.burstcount.eq(1)]
        for _ in range(3):
            yield
        pending_reads = []     # (start, n) in order; data beats are collected by the monitor below
        for k in range(c["nacc"]):
            for _ in range(r.randint(0, c["idle"]) if c["idle"] else 0):
                yield
            cls = c["cls"] if c["cls"] != "mixed" else r.choice(["singles", "write-bursts", "read-bursts"])
            start = r.choice(hot) + r.randrange(48)
            we = r.random() < 0.5
            n = 1
            if cls == "write-bursts":
                we, n = True, r.randint(2, c["max_burst"])
            elif cls == "read-bursts":
                we, n = False, r.randint(2, c["max_burst"])
            up = pw // avw if pw > avw else 1
            if c.get("aligned") and up > 1 and n > 1:
                # well-aligned bursts: start and end on a wide-word boundary (keeps the up-converting path observable)
                start -= start % up
                n = min(c["max_burst"] - c["max_burst"] % up, max(up, n - n % up)) or up
            if n > 1 and c.get("long_bursts") and r.random() < 0.3:
                # burstcount larger than the bridge's FIFO depth (max_burst_length only sizes the FIFOs; the burst counter
                # and burstcount are 8+ bits wide): the write path must then back-pressure the master
                n = r.randint(c["max_burst"] + 1, min(60, 3 * c["max_burst"] + 2))
                if c.get("aligned") and up > 1:
                    n = max(up, n - n % up)
                res["long_bursts"] = res.get("long_bursts", 0) + 1
            if n > 1 and up > 1 and (start % up or (start + n) % up):
                res["unaligned_bursts"] = res.get("unaligned_bursts", 0) + 1
            if we:
                beats = [(r.getrandbits(avw), full if r.random() < 0.6 else (r.getrandbits(avb))) for _ in range(n)]
                if n > 1:
                    res["wbursts"] += 1
                for bi, (d, be) in enumerate(beats):
                    if bi > 0 and c["gaps"] != "none" and r.random() < 0.4:
                        yield av.write.eq(0)
                        for _ in range(r.choice([1, 1, 2, 5, 12, 30])):
                            yield
                        res["gaps_used"] += 1
                    stm = [av.write.eq(1), av.writedata.eq(d), av.byteenable.eq(be)]
                    if bi == 0:
                        stm += [av.address.eq(start + off), av.burstcount.eq(n)]
                    elif c["gaps"] == "gaps-scramble":
                        stm += [av.address.eq(r.getrandbits(12)), av.burstcount.eq(r.randint(1, 16))]
                    yield stm
                    yield
                    waited = 0
                    while (yield av.waitrequest):
                        waited += 1
                        res["stalled"] += 1
                        if waited > BOUND:
                            res["v"].append(dict(kind="write-beat-not-accepted-within-bound", access=k, beat=bi, of=n, start=start))
                            state["done"] = True
                            return
                        yield
                    res["beats_w"] += 1
                    for i in range(avb):
                        if (be >> i) & 1:
                            model[(start + bi * inc) * avb + i] = (d >> (8 * i)) & 0xFF
                yield [av.write.eq(0)] + garbage()
                res["done"] += 1
            else:
                if n > 1:
                    res["rbursts"] += 1
                yield [av.read.eq(1), av.address.eq(start + off), av.burstcount.eq(n), av.byteenable.eq(full)]
                yield
                waited = 0
                while (yield av.waitrequest):
                    waited += 1
                    res["stalled"] += 1
                    if waited > BOUND:
                        res["v"].append(dict(kind="read-command-not-accepted-within-bound", access=k, start=start, n=n))
                        state["done"] = True
                        return
                    yield
                # expected data is fixed at command acceptance (no later write can be accepted before the data is back,
                # and earlier writes were accepted before)
                exp = [[rd_model((start + bi * inc) * avb + i) for i in range(avb)] for bi in range(n)]
                state["expect"].append(dict(start=start, n=n, exp=exp, access=k))
                yield [av.read.eq(0)] + garbage()
                # wait for all beats of this read (this front-end does not accept a new command before)
                waited = 0
                while state["expect"]:
                    waited += 1
                    if waited > BOUND:
                        e = state["expect"][0]
                        res["v"].append(dict(kind="read-data-not-complete-within-bound", access=k, start=start, n=n, got=e.get("got", 0)))
                        state["done"] = True
                        return
                    yield
                res["done"] += 1
        # quiescence: the memory side may be in a long stall (up to 300 cycles) with beats still queued in the bridge
        quiet, last = 0, None
        for _ in range(30000):
            now = (stub.seq, len(stub.wbeats[0]), len(stub.rbeats[0]), stub.outstanding())
            quiet = quiet + 1 if now == last else 0
            last = now
            if quiet > (200 if c.get("core") else 900) and stub.outstanding() == 0:
                break
            yield
        state["done"] = True

    state["expect"] = []

    def monitor():
        yield "passive"
        while True:
            vld, data = yield [av.readdatavalid, av.readdata]
            if vld:
                res["beats_r"] += 1
                if not state["expect"]:
                    res["v"].append(dict(kind="readdatavalid-without-pending-read", data=hex(data)))
                else:
                    e = state["expect"][0]
                    bi = e.get("got", 0)
                    got = [(data >> (8 * i)) & 0xFF for i in range(avb)]
                    if got != e["exp"][bi] and len(res["v"]) < 8:
                        res["v"].append(dict(kind="read-data-mismatch", access=e["access"], start=e["start"], beat=bi, of=e["n"],
                                             expected="".join("%02x" % x for x in reversed(e["exp"][bi])), got="%0*x" % (2 * avb, data)))
                    e["got"] = bi + 1
                    if e["got"] >= e["n"]:
                        state["expect"].pop(0)
            yield

    cycles, reason = run_sim(dut, mem_procs + [main(), monitor()], lambda: state["done"], 3000000, wall_limit=900)
    if reason == "wall":
        return dict(verdict="inconclusive", why="wall-clock watchdog", violations=[], stats={}, nontrivial=False, signature="")
    v = res["v"] + list(stub.events) + (stub.dfi_events() if c.get("core") else [])
    bad = []
    hung = any("within-bound" in x.get("kind", "") for x in v)
    if not hung:
        for wa, w in store.mem.items():
            for i in range(pb):
                ba = wa * pb + i
                if w[i] != rd_model(ba):
                    bad.append(dict(byte_addr=ba, avalon_word=ba // avb, got=w[i], expected=rd_model(ba)))
        if bad:
            v.append(dict(kind="final-store-differs-from-model", nbytes=len(bad), first=bad[:3]))
    st = dict(accesses_done=res["done"], write_bursts=res["wbursts"], read_bursts=res["rbursts"], write_beats=res["beats_w"],
              read_beats=res["beats_r"], waitrequest_stall_cycles=res["stalled"], mid_burst_gaps=res["gaps_used"],
              native_cmds=len(stub.accepted[0]), cycles=cycles)
    for x in v:
        x["path"] = "up" if avw < pw else ("equal" if avw == pw else "down")
        x["bursts_not_aligned_to_wide_word_in_run"] = res.get("unaligned_bursts", 0)
        x["mid_burst_gaps_in_run"] = res["gaps_used"]
        x["gap_behaviour"] = c["gaps"]
    nontrivial = res["done"] >= 25 and res["stalled"] > 0 and (c["cls"] == "singles" or res["wbursts"] + res["rbursts"] >= 1)
    sig = "|".join(str(x) for x in (avw, pw, c["max_burst"], c["cls"], c["gaps"], bool(c.get("core"))))
    return dict(verdict="violated" if v else "held", violations=v[:8], stats=st, nontrivial=bool(nontrivial) or bool(v), signature=sig)


def aggregate(results, cases):
    tot = dict(accesses_done=0, write_bursts=0, read_bursts=0, write_beats=0, read_beats=0, waitrequest_stall_cycles=0, mid_burst_gaps=0, native_cmds=0)
    for r in results:
        for k in tot:
            tot[k] += (r.get("stats") or {}).get(k, 0) or 0
    by = {c["name"]: c for c in cases}
    samples = [dict(case=by.get(r["name"]), verdict=r["verdict"], stats=r.get("stats")) for r in results[:3]]
    return dict(observed=tot, samples=samples)


def summary(cov):
    o = cov["observed"]
    return "  observed: %d accesses (%d write bursts, %d read bursts), %d write beats, %d read beats, %d waitrequest stall cycles, %d mid-burst gaps, %d native commands" % (
        o["accesses_done"], o["write_bursts"], o["read_bursts"], o["write_beats"], o["read_beats"], o["waitrequest_stall_cycles"], o["mid_burst_gaps"], o["native_cmds"])
