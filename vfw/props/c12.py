"""C12 -- DMA reader and writer stream exactly once, in order, without overrun.  See DESIGN.md section 3/C12."""
import random

LEVEL = "exploration"
BATCH = 12
BATCH_TIMEOUT = 3000
RULE = ("[CORE CASES: a share of the cases (names core*) runs the same front-end and oracle on a port of the real LiteDRAMCrossbar + LiteDRAMController with the reference DRAM on DFI, refresh running, DFI protocol events of the reference model added to the witnesses] case = (reader | writer, native | AXI port, fifo_depth incl. 1 and 2, buffered, producer / consumer stall profile incl. "
        "'stall hundreds of cycles then drain', memory latency / back-pressure profile, seed); reader: the output stream must "
        "equal, word for word and in order, the store contents at the accepted address stream with `last` on the matching "
        "word, and the pulsed core stub must never have to pulse rdata.valid into ready=0; writer: the (address, data) pairs "
        "stored must equal the input stream in order, each exactly once; non-trivial iff >=60 words moved, the consumer "
        "(reader) was stalled while reads were in flight / the producer (writer) was back-pressured; distinct = distinct "
        "(engine, port type, depth, buffered, stall profile).  ENABLE cases (names *-en*): a third of the reader cases drop `enable` "
        "(flush) at random moments and raise it once the memory side is quiet; epoch-wise oracle (gap-free prefix while enabled, "
        "ordered subsequence during the flush, nothing of an old epoch after re-enable, final epoch complete).  CSR cases (names "
        "csr*): with_csr=True engines programmed through base / length / loop / enable; the command stream must be base .. "
        "base+length-1 (repeated in loop mode), data / last / stored pairs as above, done set exactly after the last address "
        "(never in loop mode)")
ASSUMPTIONS = [
    "Migen simulator semantics",
    "native port: pulsed abstract core stub (rdata.valid regardless of ready, as the real crossbar); AXI port: in-order AXI "
    "slave stub with random channel stalls that, like any AXI slave, waits for rready",
]
MIN_NONTRIVIAL = {"quick": 40, "thorough": 100}
PROFILES = ["always", "random", "slow", "stall-then-drain"]


def cases(tier, seed):
    n = 240 if tier == "quick" else 1600
    out = []
    # every (engine, port, depth, buffered, profile) combination, shuffled per seed and cycled: the quick tier sees a
    # different 240 of the 320 each seed, the thorough tier sees each five times with different rates and lengths
    combos = [(e, p, d, b, pr) for e in ("reader", "writer") for p in ("native", "native", "native", "axi")
              for d in (1, 2, 3, 4, 6, 8, 12, 16, 24) for b in (False, True) for pr in PROFILES]
    random.Random("C12/combos/%d" % seed).shuffle(combos)
    for k in range(n):
        r = random.Random("C12/%d/%s/%d" % (seed, tier, k))
        e, p, d, b, pr = combos[k % len(combos)]
        c = dict(engine=e, port=p, fifo_depth=d, buffered=b, profile=pr,
                 nwords=r.randint(80, 200), cmd_ready_prob=r.choice([1.0, 0.7, 0.3]), extra_lat=r.choice([(0, 0), (0, 10), (0, 40)]),
                 long_stall=r.choice([0, 0, 0.01]), src_valid=r.choice([1.0, 0.8, 0.3]), dw=r.choice([32, 64]),
                 seed="C12/%d/%d" % (seed, k))
        if c["buffered"] and c["fifo_depth"] < 2:
            c["fifo_depth"] = 2
        # a third of the reader cases drop `enable` (the documented flush) at random moments and raise it again once the
        # memory side is quiet: "stalled" keeps the consumer stalled during the flush, "free" lets it run
        if e == "reader" and k % 3 == 0:
            c["toggle"] = r.choice(["stalled", "stalled", "free"])
        c["name"] = "%04d-%s-%s-d%d%s-%s%s" % (k, c["engine"], c["port"], c["fifo_depth"], "b" if c["buffered"] else "", c["profile"],
                                                 "-en" + c["toggle"] if c.get("toggle") else "")
        c["cost"] = c["nwords"]
        out.append(c)
    # CSR-driven mode (with_csr=True, the form LiteX SoCs use): the engine generates base .. base+length-1 itself
    for k in range(24 if tier == "quick" else 160):
        r = random.Random("C12/%d/%s/csr/%d" % (seed, tier, k))
        c = dict(engine=["reader", "writer"][k % 2], port="native", csr=True, fifo_depth=[1, 2, 4, 16, 3, 12][(k // 2) % 6], buffered=bool((k // 8) % 2),
                 profile=PROFILES[(k // 2) % 4], dw=r.choice([32, 64]), length_words=r.choice([1, 2, 7, 16, 33, 64]),
                 base_words=r.choice([r.randrange(0, 1 << 13), (1 << 13) + r.randrange(0, 1 << 13)]), loop=bool((k // 4) % 2), cmd_ready_prob=r.choice([1.0, 0.7, 0.3]),
                 extra_lat=r.choice([(0, 0), (0, 10), (0, 40)]), long_stall=r.choice([0, 0, 0.01]), src_valid=r.choice([1.0, 0.8, 0.3]),
                 nwords=0, seed="C12/%d/csr/%d" % (seed, k))
        if c["buffered"] and c["fifo_depth"] < 2:
            c["fifo_depth"] = 2
        if k in (4, 5) or (tier != "quick" and k % 16 in (4, 5)):
            # a transfer longer than 2^12 words (offset / length counter widths, base + offset carries); fast memory and
            # an always-ready consumer keep the run short
            c.update(length_words=r.choice([4100, 4500, 5000]), loop=False, profile="always", cmd_ready_prob=1.0, extra_lat=(0, 0),
                     long_stall=0, src_valid=1.0, fifo_depth=16, buffered=False, dw=r.choice([64, 64, 32]), aw=14,
                     base_words=r.randrange(0, 1 << 13))
        c["name"] = "csr%03d-%s-d%d%s-%s-len%d%s" % (k, c["engine"], c["fifo_depth"], "b" if c["buffered"] else "", c["profile"],
                                                     c["length_words"], "-loop" if c["loop"] else "")
        c["cost"] = 120
        out.append(c)
    # the same engines on a port of the real crossbar + controller + reference DRAM
    for k in range(12 if tier == "quick" else 96):
        r = random.Random("C12/%d/%s/core/%d" % (seed, tier, k))
        c = dict(engine=["reader", "writer"][k % 2], port="core", fifo_depth=[1, 2, 4, 8, 16, 3, 6, 12][(k // 2) % 8], buffered=bool((k // 4) % 2),
                 profile=PROFILES[(k // 2) % 4 if k % 3 else r.randrange(4)], nwords=r.randint(100, 220), cmd_ready_prob=1.0,
                 extra_lat=(0, 0), long_stall=0, src_valid=r.choice([1.0, 0.8, 0.3]), dw=r.choice([32, 64]),
                 cmd_buffer_depth=r.choice([4, 8, 16]), refresh=(k % 6 != 5), seed="C12/%d/core/%d" % (seed, k))
        if c["buffered"] and c["fifo_depth"] < 2:
            c["fifo_depth"] = 2
        if c["engine"] == "reader" and k % 4 == 0:
            c["toggle"] = r.choice(["stalled", "free"])
        c["name"] = "core%03d-%s-d%d%s-%s%s" % (k, c["engine"], c["fifo_depth"], "b" if c["buffered"] else "", c["profile"],
                                                "-en" + c["toggle"] if c.get("toggle") else "")
        c["cost"] = c["nwords"] * 6
        out.append(c)
    return out


def sink_profile(c, r):
    p = c["profile"]
    if p == "always":
        return dict(ready_prob=1.0)
    if p == "random":
        return dict(ready_prob=0.6)
    if p == "slow":
        return dict(ready_prob=0.15)
    return dict(ready_prob=0.9, long_stall=0.03, long_len=(100, 400))


class EnableToggler:
    """Drops the reader's `enable` at random moments (documented use: flush) and raises it again once the memory side has
    answered everything outstanding and the output FIFO had time to drain.  windows = [(first cycle with enable low,
    last cycle with enable low)]."""

    def __init__(self, enable, stub, rng, depth):
        self.enable, self.stub, self.rng, self.depth = enable, stub, rng, depth
        self.windows = []
        self.cycle = 0
        self.low = False
        self.stop = False
        self.nonempty_disables = 0

    def disabled(self):
        return self.low

    def process(self):
        yield "passive"
        yield self.enable.eq(1)
        yield
        self.cycle = 1
        while True:
            for _ in range(self.rng.choice([20, 60, 150, 400]) + self.rng.randint(0, 40)):
                yield
                self.cycle += 1
            if self.stop:
                while True:
                    yield
                    self.cycle += 1
            if self.stub.outstanding():
                self.nonempty_disables += 1
            yield self.enable.eq(0)
            self.low = True
            t0 = self.cycle + 1
            yield
            self.cycle += 1
            quiet = 0
            while quiet < self.depth + 6 + self.extra:
                quiet = quiet + 1 if self.stub.outstanding() == 0 else 0
                yield
                self.cycle += 1
            yield self.enable.eq(1)
            self.windows.append((t0, self.cycle))
            self.low = False
            yield
            self.cycle += 1

    extra = 4


def check_epochs(tog, src, snk, exp, complete):
    """Reader with enable toggling.  Epoch j = the enabled period before disable window j.  Addresses accepted in epoch j
    must come out, while enabled, as a gap-free prefix of the epoch's expected (data, last) sequence, during the flush
    as an ordered subsequence of the rest, and never after the re-enable; the final epoch must come out completely."""
    v = []
    bounds = [w[0] for w in tog.windows]          # first disabled cycle of each window
    ends = [w[1] for w in tog.windows]

    def epoch_of(cyc):
        j = 0
        while j < len(ends) and cyc > ends[j]:
            j += 1
        return j, (j < len(bounds) and cyc >= bounds[j])       # (epoch, inside its flush window)
    nep = len(tog.windows) + 1
    sent = [[] for _ in range(nep)]
    for (cyc, i) in src.sent:
        j, inwin = epoch_of(cyc)
        if inwin:
            v.append(dict(kind="address-accepted-while-disabled", cycle=cyc, index=i))
        sent[j].append(i)
    outs = [([], []) for _ in range(nep)]
    for (cyc, g) in snk.got:
        j, inwin = epoch_of(cyc)
        outs[j][1 if inwin else 0].append((g["data"], g["last"]))
    for j in range(nep):
        e = [exp[i] for i in sent[j] if i < len(exp)]
        en, fl = outs[j]
        if en != e[:len(en)]:
            k = next((i for i in range(min(len(en), len(e))) if en[i] != e[i]), min(len(en), len(e)))
            v.append(dict(kind="reader-output-differs", epoch=j, index=k, n_expected=len(e), n_got=len(en),
                          expected=[(hex(d), l) for d, l in e[k:k + 2]], got=[(hex(d), l) for d, l in en[k:k + 2]]))
            break
        rest = e[len(en):]
        it = iter(rest)
        if not all(any(x == y for y in it) for x in fl):
            v.append(dict(kind="flush-output-not-a-subsequence", epoch=j, got=[(hex(d), l) for d, l in fl[:3]]))
            break
        if j == nep - 1 and complete and len(en) != len(e):
            v.append(dict(kind="reader-output-differs", epoch=j, index=len(en), n_expected=len(e), n_got=len(en),
                          note="final epoch not delivered completely"))
    return v


def run_csr_case(c):
    """with_csr=True: base / length / loop / enable registers, internal address generator, done / offset status."""
    from .. import shim  # noqa
    from migen import Module
    from litedram.common import LiteDRAMNativePort
    from litedram.frontend.dma import LiteDRAMDMAReader, LiteDRAMDMAWriter
    from ..stub import CoreStub, Store
    from ..streams import StreamSource, StreamSink
    from ..core import run_sim
    r = random.Random(c["seed"])
    aw, dw = c.get("aw") or r.choice([14, 14, 27]), c["dw"]
    nb = dw // 8
    store = Store(nb)
    port = LiteDRAMNativePort("both", aw, dw)
    reader = c["engine"] == "reader"

    class DUT(Module):
        def __init__(self):
            cls = LiteDRAMDMAReader if reader else LiteDRAMDMAWriter
            self.submodules.dma = cls(port, fifo_depth=c["fifo_depth"], fifo_buffered=c["buffered"], with_csr=True)

    dut = DUT()
    dma = dut.dma
    stub = CoreStub([port], store, r, cmd_ready_prob=c["cmd_ready_prob"], extra_lat=tuple(c["extra_lat"]), long_stall=c["long_stall"],
                    max_outstanding=40)
    L, B = c["length_words"], c["base_words"]
    laps = r.randint(2, 4) if c["loop"] else 1
    total = L * laps
    exp_addrs = [(B + (i % L)) % (1 << aw) for i in range(total)]
    # non-looping runs are started a second time on the same instance (enable 0 -> new base / length -> enable 1)
    second = None
    if not c["loop"] and reader:       # (a disabled writer drains and drops its input by design: its producer cannot simply keep running)
        second = (r.randrange(0, 1 << 13), r.choice([1, 3, 8, 20]))
        exp_addrs += [(second[0] + i) % (1 << aw) for i in range(second[1])]
        total2 = total + second[1]
    else:
        total2 = total
    state = dict(done=False, done_flag_at=None, done_early=False, offsets=set())
    v = []
    if reader:
        snk = StreamSink(dma.source, ["data", "last"], r, **sink_profile(c, r))
        procs = [stub.process(), snk.process()]
    else:
        words = [r.getrandbits(dw) for _ in range(total2 + 8)]
        src = StreamSource(dma.sink, [dict(data=w) for w in words], r, valid_prob=c["src_valid"], scramble=r.random() < 0.5)
        procs = [stub.process()]

    def ctrl():
        yield [dma._base.storage.eq(B * nb), dma._length.storage.eq(L * nb), dma._loop.storage.eq(int(c["loop"])), dma._enable.storage.eq(0)]
        for _ in range(r.randint(3, 12)):
            yield
        yield dma._enable.storage.eq(1)
        yield
        yield
        t = 0
        while True:
            done, off = yield [dma._done.status, dma._offset.status]
            state["offsets"].add(off)
            n_cmd = len(stub.accepted[0])
            if done and state["done_flag_at"] is None:
                state["done_flag_at"] = n_cmd
                if not c["loop"] and n_cmd < (total2 if state.get("second_started") else L):
                    state["done_early"] = True
            moved = len(snk.got) if reader else stub.writes_done()
            if moved != state.get("moved"):
                state["moved"], t = moved, 0
            t += 1
            if c["loop"]:
                if moved >= total:
                    yield dma._enable.storage.eq(0)     # stop the loop
                    for _ in range(80):
                        yield
                    break
            elif done and moved >= total and stub.outstanding() == 0 and second and not state.get("second_started"):
                state["first_pass_commands"] = len(stub.accepted[0])
                yield dma._enable.storage.eq(0)
                for _ in range(r.randint(4, 40)):
                    yield
                yield [dma._base.storage.eq(second[0] * nb), dma._length.storage.eq(second[1] * nb)]
                yield
                yield dma._enable.storage.eq(1)
                state["second_started"] = True
                state["done_flag_at"] = None
                for _ in range(3):
                    yield
                t = 0
            elif done and moved >= total2 and stub.outstanding() == 0:
                for _ in range(80):
                    yield
                break
            if t > 6000:
                v.append(dict(kind="no-progress", moved=moved, of=total2, done_flag=bool(done), second_pass=bool(state.get("second_started"))))
                break
            yield
        state["done"] = True

    # the writer's producer starts after the engine left its idle state (a word offered while disabled is dropped by design)
    def gated_src():
        yield "passive"
        for _ in range(24):
            yield
        yield from src.process()

    if not reader:
        procs.append(gated_src())
    cycles, reason = run_sim(dut, procs + [ctrl()], lambda: state["done"], 400000, wall_limit=600)
    if reason == "wall":
        return dict(verdict="inconclusive", why="wall-clock watchdog", violations=[], stats={}, nontrivial=False, signature="")
    v += list(stub.events)
    acc = [a for (_, we, a) in stub.accepted[0]]
    wes = set(we for (_, we, a) in stub.accepted[0])
    if wes - {0 if reader else 1}:
        v.append(dict(kind="wrong-command-direction", seen=sorted(wes)))
    total = total2          # both passes are judged as one command / data stream
    exp_last = [int((i % L) == L - 1) for i in range(L * laps)] + ([int(i == second[1] - 1) for i in range(second[1])] if second else [])
    if acc[:total] != exp_addrs[:len(acc[:total])] or len(acc) < total:
        k = next((i for i in range(min(len(acc), total)) if acc[i] != exp_addrs[i]), min(len(acc), total))
        v.append(dict(kind="csr-mode-address-sequence-differs", index=k, expected=exp_addrs[k:k + 3], got=acc[k:k + 3], base_word=B,
                      length_words=L, loop=c["loop"], n_commands=len(acc)))
    if not c["loop"]:
        if len(acc) > total:
            v.append(dict(kind="csr-mode-more-commands-than-length", commands=len(acc), length_words=L))
        if state["done_flag_at"] is None:
            v.append(dict(kind="csr-mode-done-never-set", commands=len(acc), length_words=L, second_pass=bool(state.get("second_started"))))
        if state["done_early"]:
            v.append(dict(kind="csr-mode-done-before-all-addresses-issued", commands_at_done=state["done_flag_at"], length_words=L,
                          second_pass_length=second[1] if second else None))
    elif state["done_flag_at"] is not None:
        v.append(dict(kind="csr-mode-done-set-in-loop-mode"))
    if reader:
        exp = [(store.read(a), exp_last[i]) for i, a in enumerate(exp_addrs)]
        got = [(g["data"], g["last"]) for (_, g) in snk.got]
        if got[:total] != exp[:len(got[:total])] or len(got) < total:
            k = next((i for i in range(min(len(got), total)) if got[i] != exp[i]), min(len(got), total))
            v.append(dict(kind="reader-output-differs", index=k, n_expected=total, n_got=len(got),
                          expected=[(hex(d), l) for d, l in exp[k:k + 2]], got=[(hex(d), l) for d, l in got[k:k + 2]]))
        moved = len(got)
    else:
        got = stub.write_sequence()
        exp = list(zip(exp_addrs, words))
        got2 = [(a, d) for (a, d, we) in got]
        if got2[:total] != exp[:len(got2[:total])] or len(got2) < total:
            k = next((i for i in range(min(len(got2), total)) if got2[i] != exp[i]), min(len(got2), total))
            v.append(dict(kind="writer-stored-sequence-differs", index=k, n_expected=total, n_got=len(got2),
                          expected=[(a, hex(d)) for a, d in exp[k:k + 2]], got=[(a, hex(d)) for a, d in got2[k:k + 2]]))
        if any(we != (1 << nb) - 1 for (a, d, we) in got):
            v.append(dict(kind="writer-partial-byte-enables"))
        moved = len(got2)
    if max(state["offsets"] or [0]) > max(L, second[1] if second else 0):      # offset == length is the legitimate end state of a non-looping run
        v.append(dict(kind="csr-mode-offset-status-out-of-range", max_offset=max(state["offsets"]), length_words=L))
    st = dict(words=moved, cycles=cycles, laps=laps, length_words=L, offsets_seen=len(state["offsets"]), max_outstanding=stub.max_out_seen,
              second_pass=bool(state.get("second_started")))
    sig = "|".join(str(x) for x in ("csr", c["engine"], c["fifo_depth"], c["buffered"], c["profile"], L, c["loop"]))
    return dict(verdict="violated" if v else "held", violations=v[:8], stats=st, nontrivial=(moved >= total) or bool(v), signature=sig)


def run_case(c):
    if c.get("csr"):
        return run_csr_case(c)
    from .. import shim  # noqa
    from migen import Module
    from litedram.common import LiteDRAMNativePort
    from litedram.frontend.dma import LiteDRAMDMAReader, LiteDRAMDMAWriter
    from ..stub import CoreStub, Store
    from ..streams import StreamSource, StreamSink
    from ..core import run_sim
    r = random.Random(c["seed"])
    aw, dw = r.choice([14, 14, 27]), c["dw"]
    nb = dw // 8
    store = Store(nb)
    violations = []
    backend = None
    if c["port"] == "core":
        from ..corebackend import CoreBackend
        backend = CoreBackend(1, databits=dw, refresh=c["refresh"], cmd_buffer_depth=c["cmd_buffer_depth"])
        port = backend.ports[0]
        store = backend.store
        aw = 14                # addresses inside the real device
    elif c["port"] == "native":
        port = LiteDRAMNativePort("both", aw, dw)
    else:
        from litedram.frontend.axi import LiteDRAMAXIPort
        port = LiteDRAMAXIPort(data_width=dw, address_width=aw + (nb.bit_length() - 1), id_width=4)

    class DUT(Module):
        def __init__(self):
            if c["engine"] == "reader":
                self.submodules.dma = LiteDRAMDMAReader(port, fifo_depth=c["fifo_depth"], fifo_buffered=c["buffered"])
            else:
                self.submodules.dma = LiteDRAMDMAWriter(port, fifo_depth=c["fifo_depth"], fifo_buffered=c["buffered"])

    if backend is not None:
        dut = backend.dut
        if c["engine"] == "reader":
            dut.submodules.dma = LiteDRAMDMAReader(port, fifo_depth=c["fifo_depth"], fifo_buffered=c["buffered"])
        else:
            dut.submodules.dma = LiteDRAMDMAWriter(port, fifo_depth=c["fifo_depth"], fifo_buffered=c["buffered"])
        stub = backend
        mem_proc = backend.processes()
        events = backend.events
    else:
        dut = DUT()
    if backend is not None:
        pass
    elif c["port"] == "native":
        stub = CoreStub([port], store, r, cmd_ready_prob=c["cmd_ready_prob"], extra_lat=tuple(c["extra_lat"]),
                        long_stall=c["long_stall"], max_outstanding=40)
        mem_proc = [stub.process()]
        events = stub.events
    else:
        from ..axistub import AXISlaveStub
        stub = AXISlaveStub(port, store, r, ready_prob=c["cmd_ready_prob"], extra_lat=tuple(c["extra_lat"]))
        mem_proc = stub.processes()
        events = stub.events
    shift = (nb.bit_length() - 1) if c["port"] == "axi" else 0
    n = c["nwords"]
    hot = [r.randrange(1 << aw) for _ in range(5)]
    addrs = []
    a = r.randrange(1 << aw)
    for k in range(n):
        x = r.random()
        if x < 0.6:
            a = (a + 1) % (1 << aw)
        elif x < 0.8:
            a = r.choice(hot)
        else:
            a = r.randrange(1 << aw)
        addrs.append(a)
    if c["engine"] == "reader":
        items = [dict(address=a << shift, last=int(r.random() < 0.1 or k == n - 1)) for k, a in enumerate(addrs)]
        src = StreamSource(dut.dma.sink, items, r, valid_prob=c["src_valid"], scramble=r.random() < 0.5)
        tog = EnableToggler(dut.dma.enable, stub, r, c["fifo_depth"]) if c.get("toggle") else None
        snk = StreamSink(dut.dma.source, ["data", "last"], r,
                         hold_until=(tog.disabled if tog is not None and c["toggle"] == "stalled" else None), **sink_profile(c, r))
        procs = mem_proc + [src.process(), snk.process()] + ([tog.process()] if tog is not None else [])

        def finished():
            if tog is not None:
                tog.stop = src.done
                if not src.done or tog.disabled():
                    return False
                t_en = tog.windows[-1][1] if tog.windows else 0
                return (sum(1 for (cy, _) in snk.got if cy > t_en) >= sum(1 for (cy, _) in src.sent if cy > t_en))
            return src.done and len(snk.got) >= n
    else:
        tog = None
        items = [dict(address=a << shift, data=r.getrandbits(dw), last=int(k == n - 1)) for k, a in enumerate(addrs)]
        src = StreamSource(dut.dma.sink, items, r, valid_prob=c["src_valid"], scramble=r.random() < 0.5)
        procs = mem_proc + [src.process()]

        def finished():
            return src.done and stub.outstanding() == 0 and stub.writes_done() >= n
    state = {}

    def done_fn():
        cyc = src.cycle
        act = (len(src.sent), len(snk.got) if c["engine"] == "reader" else stub.writes_done())
        if act != state.get("act"):
            state["act"], state["t"] = act, cyc
        if finished():
            state.setdefault("t_fin", cyc)
            return cyc - state["t_fin"] > 60
        if cyc - state.get("t", 0) > 5000:
            state["hang"] = True
            return True
        return False

    cycles, reason = run_sim(dut, procs, done_fn, 300000, wall_limit=600)
    if reason == "wall":
        return dict(verdict="inconclusive", why="wall-clock watchdog", violations=[], stats={}, nontrivial=False, signature="")
    v = list(violations) + list(events) + (backend.dfi_events() if backend is not None else [])
    if state.get("hang") or reason == "cycle-cap":
        v.append(dict(kind="no-progress", sent=len(src.sent), of=n,
                      got=len(snk.got) if c["engine"] == "reader" else stub.writes_done()))
    if c["engine"] == "reader":
        exp = [(store.read(a), it["last"]) for a, it in zip(addrs, items)][:len(src.sent)]
        got = [(g["data"], g["last"]) for (_, g) in snk.got]
        if tog is not None:
            v += check_epochs(tog, src, snk, exp, complete=not (state.get("hang") or reason == "cycle-cap"))
        elif got != exp[:len(got)] or (not v and len(got) != len(exp)):
            k = next((i for i in range(min(len(got), len(exp))) if got[i] != exp[i]), min(len(got), len(exp)))
            v.append(dict(kind="reader-output-differs", index=k, n_expected=len(exp), n_got=len(got),
                          expected=[(hex(d), l) for d, l in exp[k:k + 2]], got=[(hex(d), l) for d, l in got[k:k + 2]]))
        st = dict(words=len(got), sink_stalled_with_valid=snk.stalled_with_valid, max_outstanding=stub.max_out_seen,
                  src_stalled=src.stalled_cycles, cycles=cycles, drops=sum(1 for e in events if e["kind"] == "rdata-dropped"))
        nontrivial = len(got) >= 60 and (c["profile"] == "always" or snk.stalled_with_valid > 0) and src.stalled_cycles > 0
        if tog is not None:
            st.update(disables=len(tog.windows), flushed_words=len(exp) - len(got), disabled_with_words_inside=tog.nonempty_disables)
            nontrivial = len(got) >= 30 and len(tog.windows) >= 2 and tog.nonempty_disables >= 1
    else:
        exp = [(a, it["data"]) for a, it in zip(addrs, items)][:len(src.sent)]
        got = stub.write_sequence()
        full = (1 << nb) - 1
        bad_we = [g for g in got if g[2] != full]
        got2 = [(a, d) for (a, d, we) in got]
        if got2 != exp[:len(got2)] or (not v and len(got2) != len(exp)):
            k = next((i for i in range(min(len(got2), len(exp))) if got2[i] != exp[i]), min(len(got2), len(exp)))
            v.append(dict(kind="writer-stored-sequence-differs", index=k, n_expected=len(exp), n_got=len(got2),
                          expected=[(a, hex(d)) for a, d in exp[k:k + 2]], got=[(a, hex(d)) for a, d in got2[k:k + 2]]))
        if bad_we:
            v.append(dict(kind="writer-partial-byte-enables", n=len(bad_we)))
        if backend is not None and not v:
            final = {}
            for a, d in exp:
                final[a] = d
            bad = [(a, hex(d), hex(store.read(a))) for a, d in final.items() if store.read(a) != d]
            if bad:
                v.append(dict(kind="dram-contents-differ-from-written-stream", n=len(bad), first=bad[:3]))
        st = dict(words=len(got2), src_stalled=src.stalled_cycles, max_outstanding=stub.max_out_seen, cycles=cycles,
                  underruns=sum(1 for e in events if e["kind"] == "wdata-underrun"))
        nontrivial = len(got2) >= 60 and src.stalled_cycles > 0
    sig = "|".join(str(x) for x in (c["engine"], c["port"], c["fifo_depth"], c["buffered"], c["profile"], c.get("toggle")))
    return dict(verdict="violated" if v else "held", violations=v[:8], stats=st, nontrivial=bool(nontrivial) or bool(v), signature=sig)


def aggregate(results, cases):
    by = {c["name"]: c for c in cases}
    tot = {}
    for r in results:
        c = by.get(r["name"])
        st = r.get("stats") or {}
        if not c or not st:
            continue
        e = tot.setdefault(c["engine"] + "/" + c["port"], dict(cases=0, words=0, max_outstanding=0, stalled=0))
        e["cases"] += 1
        e["words"] += st.get("words", 0)
        e["max_outstanding"] = max(e["max_outstanding"], st.get("max_outstanding", 0) or 0)
        e["stalled"] += st.get("sink_stalled_with_valid", 0) or st.get("src_stalled", 0) or 0
    samples = [dict(case=by.get(r["name"]), verdict=r["verdict"], stats=r.get("stats")) for r in results[:3]]
    return dict(observed=tot, samples=samples)


def summary(cov):
    return "  observed: " + "; ".join("%s: %d cases, %d words, max in flight %d, %d stalled cycles" % (
        k, d["cases"], d["words"], d["max_outstanding"], d["stalled"]) for k, d in sorted(cov["observed"].items()))
