"""C06 -- port addresses map one-to-one onto DRAM locations.  See DESIGN.md section 3/C06."""
import random

from .. import corecfg

LEVEL = "exploration"
BATCH = 1
BATCH_TIMEOUT = 3000
RULE = ("case = geometry (bankbits, rowbits, colbits on both sides of A10, burst alignment via memory type/rate, ranks, "
        "bank_byte_alignment) x auto-precharge; one port, refresh off; addresses = each bit alone, every pair of bits, a dense "
        "low range, the top of the address space and random values, read and written; every accepted command is attributed "
        "to its DFI CAS (per-bank order) and the observed (rank, bank, row of the open ACT, column) is compared with the "
        "independent statement of the documented mapping, injectivity is checked on everything observed; non-trivial iff "
        "every port address bit and every rank/bank/row/column bit was seen at both values and >=150 commands were "
        "attributed; distinct = distinct geometry tuples")
ASSUMPTIONS = [
    "Migen simulator semantics",
    "documented mapping: columns, then banks (rank in the top bank bits), then rows; bank field at max(colbits-align, "
    "log2(bank_byte_alignment / bytes per port word)); column A10 skipped; low `align` column bits zero",
    "geometries keep rowbits > colbits when colbits > 10 (a device with column bit A11 has >= 12 address pins)",
]
MIN_NONTRIVIAL = {"quick": 8, "thorough": 40}


def addresses(aw, r, n_rand):
    s = []
    for i in range(aw):
        s.append(1 << i)
    for i in range(aw):
        for j in range(i + 1, aw):
            if r.random() < (1.0 if aw <= 16 else 0.45):
                s.append((1 << i) | (1 << j))
    s += list(range(0, 96))
    top = (1 << aw) - 1
    s += [top - i for i in range(32)]
    s += [r.randrange(1 << aw) for _ in range(n_rand)]
    s.append(0)
    return s


def cases(tier, seed):
    n = 24 if tier == "quick" else 160
    out = []
    fams = ["SDR1", "SDR2", "DDR2x", "DDR3x2", "DDR3x4", "LPDDR", "SDR1", "DDR4x4", "LPDDR4x8", "LPDDR5x1", "SDR2"]
    for k in range(n):
        r = random.Random("C06/%d/%s/%d" % (seed, tier, k))
        mem = corecfg.synth_mem(r, fams[k % len(fams)])
        mem["bankbits"] = r.choice([1, 2, 3, 4]) if mem["nphases"] < 4 else r.choice([1, 2, 3])
        mem["colbits"] = [8, 9, 10, 11, 12, 12, 11, 9][(k // 2 + seed) % 8]
        mem["rowbits"] = r.choice([11, 12, 13, 14, 15, 16]) if tier == "thorough" else r.choice([11, 12, 13, 14])
        if mem["colbits"] > 10:
            mem["rowbits"] = max(mem["rowbits"], mem["colbits"] + 1)
        mem["nranks"] = 2 if r.random() < 0.3 else 1
        if mem["nranks"] == 2 and mem["bankbits"] == 4:
            mem["bankbits"] = 3
        mem["timing"].update(tRP=1, tRCD=1, tWR=1, tWTR=1, tRFC=4, tFAW=None, tCCD=1, tRRD=None, tRC=None, tRAS=None)
        # a third of the cases run with refresh and pauses in the address stream (banks idle across a refresh: the row of
        # the first ACTIVATE afterwards must still be the row part of the address)
        with_ref = (k % 3 == 2)
        cs = dict(cmd_buffer_depth=4, with_refresh=with_ref, with_auto_precharge=bool(k % 2))
        word_bytes = mem["databits"] * (1 if mem["memtype"] == "SDR" else mem.get("dfi_mult", 2)) * mem["nphases"] // 8
        align = {"SDR": {1: 0, 2: 1}[mem["nphases"]] if mem["memtype"] == "SDR" else None}.get("SDR")
        bba = [0, "row", "bank/4", 0x10000, "bank/2", 0, "4rows", "bank", 0x1000, "bank/8"][(k // 3 + seed) % 10] if k % 3 else \
            r.choice([0, 0, "row", "4rows", 0x10000, 0x1000])
        from litedram.common import burst_lengths
        bl = mem["nphases"] if mem["memtype"] == "SDR" else burst_lengths[mem["memtype"]]
        row_bytes = (1 << mem["colbits"]) // bl * word_bytes
        if bba in ("row", "4rows"):
            bba = row_bytes * (4 if bba == "4rows" else 1)
        elif isinstance(bba, str):
            # banks interleaved at a large fraction of the bank size (bank field inside the top row bits) or exactly at
            # the bank size (bank field on top of the row bits): the largest alignments that still map onto the device
            bank_bytes = row_bytes << mem["rowbits"]
            bba = bank_bytes // {"bank": 1, "bank/2": 2, "bank/4": 4, "bank/8": 8}[bba]
        if bba and bba < word_bytes:
            bba = 0
        cs["bank_byte_alignment"] = bba
        wl = {"class": "explicit", "master_mode": "fifo", "n_rand": 60 if tier == "quick" else 150}
        cfg = dict(mem=mem, cs=cs, nports=1, workload=wl, seed="C06/%d/%d" % (seed, k), trefi_override=(150 if with_ref else None),
                   max_cycles=90000, sweep=False, pauses=with_ref)
        cfg["name"] = "%03d-%s-b%d-r%d-c%d-k%d-bba%s-ap%d%s" % (k, mem["family"], mem["bankbits"], mem["rowbits"], mem["colbits"],
                                                                 mem["nranks"], hex(bba), k % 2, "-ref" if with_ref else "")
        cfg["cost"] = corecfg.cost_of(mem, 1, 5000)
        out.append(cfg)
    return out


def run_case(cfg):
    from .. import wholecore as W
    from ..core import AddressMap
    from litedram.common import burst_lengths
    mem = cfg["mem"]
    r = random.Random(cfg["seed"])
    word_bytes = mem["databits"] * (1 if mem["memtype"] == "SDR" else mem.get("dfi_mult", 2)) * mem["nphases"] // 8
    amap = AddressMap(mem["memtype"], mem["nphases"], mem.get("nranks", 1), mem["bankbits"], mem["rowbits"], mem["colbits"],
                      word_bytes, cfg["cs"].get("bank_byte_alignment", 0))
    addrs = addresses(amap.aw, r, cfg["workload"]["n_rand"])
    def gap():
        x = r.random()
        if cfg.get("pauses") and x < 0.04:
            return r.randint(120, 260)       # long enough for a refresh to pass with every bank idle
        return 0 if x < 0.8 else r.randint(1, 4)
    cfg["workload"]["ops"] = [[(gap(), int(r.random() < 0.5), a) for a in addrs]]
    try:
        tr = W.run_case(cfg)
    except W.PortGeometryMismatch as e:
        # onto / one-to-one cannot hold when the port's address space is not the size of the device
        return dict(verdict="violated", nontrivial=True, stats={}, signature="geometry-mismatch",
                    violations=[dict(kind="port-address-space-differs-from-device", port_address_bits=e.got_aw, device_needs_bits=e.expected_aw,
                                     memtype=mem["memtype"], nphases=mem["nphases"], geometry=[mem["bankbits"], mem["rowbits"], mem["colbits"]])])
    cfg["workload"].pop("ops", None)
    if tr.reason == "wall":
        return dict(verdict="inconclusive", why="wall-clock watchdog", violations=[], stats={}, nontrivial=False, signature="")
    v, st, seen = W.check_mapping(tr)
    if tr.state["hang"]:
        v.append(dict(kind="hang", detail=tr.state["hang"]))
    # coverage: every bit of every coordinate seen at 0 and 1
    widths = dict(rank=amap.rankbits, bank=amap.bankbits, row=amap.rowbits, col=amap.colbits - amap.align)
    tog0 = {k: 0 for k in widths}
    tog1 = {k: 0 for k in widths}
    for (rank, bank, row, col) in seen:
        vals = dict(rank=rank, bank=bank, row=row, col=col >> amap.align)
        for k in widths:
            tog1[k] |= vals[k]
            tog0[k] |= ~vals[k]
    full = all((tog1[k] & ((1 << w) - 1)) == (1 << w) - 1 and (tog0[k] & ((1 << w) - 1)) == (1 << w) - 1
               for k, w in widths.items())
    a1 = a0 = 0
    for a in seen.values():
        a1 |= a
        a0 |= ~a
    mask = (1 << amap.aw) - 1
    addr_full = (a1 & mask) == mask and (a0 & mask) == mask
    # consecutive addresses walk columns, then banks, then rows (checked on the dense low range that was driven)
    st.update(bits_covered=full, addr_bits_covered=addr_full, aw=amap.aw, cycles=tr.cycles, cba_shift=amap.shift,
              a10_seen_set=sum(1 for e in tr.ref.rd_log + tr.ref.wr_log if e["ap"]),
              sample=[dict(addr=a, loc=loc) for loc, a in list(seen.items())[:4]])
    nontrivial = full and addr_full and st["attributed"] >= 150
    sig = "|".join(str(x) for x in (mem["memtype"], mem["nphases"], mem["bankbits"], mem["rowbits"], mem["colbits"],
                                    mem.get("nranks", 1), cfg["cs"].get("bank_byte_alignment", 0),
                                    cfg["cs"].get("with_auto_precharge")))
    st["history_sample"] = (W_ if "W_" in dir() else W).trace_sample(tr)
    return dict(verdict="violated" if v else "held", violations=v[:8], stats=st, nontrivial=nontrivial, signature=sig)


def aggregate(results, cases):
    att = sum((r.get("stats") or {}).get("attributed", 0) or 0 for r in results)
    loc = sum((r.get("stats") or {}).get("distinct_locations", 0) or 0 for r in results)
    geos = sorted(set((c["mem"]["memtype"], c["mem"]["nphases"], c["mem"]["bankbits"], c["mem"]["rowbits"], c["mem"]["colbits"],
                       c["mem"].get("nranks", 1), c["cs"].get("bank_byte_alignment", 0)) for c in cases))
    samples = [dict(case=r["name"], verdict=r["verdict"], stats=r.get("stats")) for r in results[:3]]
    return dict(commands_attributed=att, distinct_locations_observed=loc, geometries=[list(g) for g in geos], samples=samples)


def summary(cov):
    return "  observed: %d commands attributed to DFI CAS, %d distinct locations over %d geometries" % (
        cov["commands_attributed"], cov["distinct_locations_observed"], len(cov["geometries"]))
