"""C05 -- no deadlock, no starved port, no starved direction.  See DESIGN.md section 3/C05."""
import math
import random

from .. import corecfg

LEVEL = "exploration"
BATCH = 1
BATCH_TIMEOUT = 3000
RULE = ("case = small configuration, one victim port (port 0) and 1..3 adversary ports running an adversarial stream class for "
        ">= 3*W cycles; oracle (bounded restatement): for every victim command, between offer and acceptance and between "
        "acceptance and its data strobe, (i) the wait is <= 2*W cycles (the number of commands any single other port got "
        "accepted meanwhile is recorded as a statistic only: a command-count bound K turned out not to be implied by the "
        "property), (ii) after all masters stop everything accepted completes within the drain bound; "
        "W depends only on the configuration; non-trivial iff the victim completed >=10 commands under contention or was "
        "still waiting at the end (itself the witness); distinct = distinct (config family, class, nports, depth)")
ASSUMPTIONS = [
    "Migen simulator semantics",
    "W = L_refresh + nports*(depth+2)*(tRP+tRCD+max(tRAS,tWR+WL)+CLsys+4) + read_time + write_time + read_latency + tWTR + WL",
    "liveness is decided only in this bounded form; the adversarial stream is longer than 3*W so an unbounded wait exceeds it",
    "W adds the direction windows once: it presumes the victim's own window drains its bank queue.  In the cases with a "
    "300-cycle window the victim therefore offers one command at a time; half of them run with refresh off, the other half "
    "with a refresh interval shorter than the window (open finding C05-direction-window-restarts-at-refresh)",
]
MIN_NONTRIVIAL = {"quick": 6, "thorough": 30}
CLASSES = ["hammer-same-row", "writes-vs-reader", "hammer-alt-rows", "reads-vs-writer", "yielding", "many-ports-one-bank",
           "round-robin-banks", "dir-stream-plus-rowmiss-w", "dir-stream-plus-rowmiss-r", "yielding", "holes-r-vs-writer",
           "holes-w-vs-reader"]
LOCKOUT_CLASSES = ("hammer-same-row", "hammer-alt-rows", "many-ports-one-bank")


def bounds(timing, phy, cs, nbanks_total, nports):
    from .c04 import service_latency
    P = cs.get("refresh_postponing", 1)
    depth = cs.get("cmd_buffer_depth", 8)
    wl = math.ceil((phy.cwl or phy.cl) / phy.nphases)
    cls_ = math.ceil(phy.cl / phy.nphases)
    Lr = service_latency(timing, phy, nbanks_total, P)
    per = timing.tRP + timing.tRCD + max(timing.tRAS or 0, timing.tWR + wl) + cls_ + 4
    W = (Lr + nports * (depth + 2) * per + cs.get("read_time", 32) + cs.get("write_time", 16) + phy.read_latency
         + (timing.tWTR or 0) + wl)
    # a stream of the other direction may legitimately run for read_time / write_time cycles (one command per cycle) before
    # the multiplexer turns around
    K = nbanks_total * (depth + 2) + 2 + cs.get("read_time", 32) + cs.get("write_time", 16)
    return K, W


def cases(tier, seed):
    n = 50 if tier == "quick" else 300
    out = []
    for k in range(n):
        r = random.Random("C05/%d/%s/%d" % (seed, tier, k))
        fam = ["SDR1", "DDR2x", "SDR1", "SDR2", "DDR3x2", "LPDDR"][k % 6]
        mem = corecfg.synth_mem(r, fam)
        mem["bankbits"] = r.choice([1, 2])
        cs = corecfg.rand_cs(r, refresh=True)
        cs["cmd_buffer_depth"] = r.choice([2, 4, 8, 1, 3])
        cs["refresh_postponing"] = r.choice([1, 2])
        if r.random() < 0.25:
            mem["nranks"] = 2        # twice the bank machines; the direction logic has to see requests of every rank
        cls = CLASSES[k % len(CLASSES)]
        trefi = r.randint(100, 140)
        long_window = None
        if (k // len(CLASSES)) % 2 == 1:
            # every second round of the direction classes: a window longer than 255 cycles for the adversary's direction
            # (counter widths); the bound W scales with it.  The refresh interval is longer than the window in the first
            # such round; in the next one it is shorter (the regime of the open finding C05-direction-window-restarts-at-refresh)
            if cls in ("writes-vs-reader", "dir-stream-plus-rowmiss-w", "holes-w-vs-reader"):
                cs["write_time"] = 300
                long_window = "w"
            if cls in ("reads-vs-writer", "dir-stream-plus-rowmiss-r", "holes-r-vs-writer"):
                cs["read_time"] = 300
                long_window = "r"
            if long_window and (k // len(CLASSES)) % 4 == 1:
                cs["with_refresh"] = False      # a refresh would end the window early
        nports = r.choice([2, 2, 3, 4]) if cls != "many-ports-one-bank" else r.choice([3, 4, 5])
        if cls.startswith("dir-stream-plus-rowmiss"):
            mem["bankbits"] = 2
            nports = r.choice([3, 4])
        if cls.startswith("holes-"):
            mem["bankbits"] = 2
            nports = r.choice([2, 3, 3])
        wl = {"class": cls, "nops": 100000, "victim_ops": 100000, "master_mode": "fifo", "hot_rows": 2, "hot_cols": 2,
              "wr_frac": r.choice([0.0, 0.5, 1.0]) if cls in LOCKOUT_CLASSES else 0.5, "we_style": "full",
              "hole_period": r.choice([1, 1, 2, 5, 13]), "rowmiss_gap": r.choice([120, 250, 400])}
        if long_window:
            # the victim offers one command at a time: with several queued in its bank machine the wait of the last one is
            # (queue depth) x (window of the other direction) when its own window is short, which W does not model
            wl["victim_serial"] = True
        cfg = dict(mem=mem, cs=cs, nports=nports, workload=wl, seed="C05/%d/%d" % (seed, k), trefi_override=trefi,
                   max_cycles=0, sweep=False)
        cfg["name"] = "%03d-%s-%s-p%d-d%d%s" % (k, fam, cls, nports, cs["cmd_buffer_depth"], "-2r" if mem.get("nranks") == 2 else "") + \
            ("-%s300-%s" % (long_window, "ref%d" % trefi if cs["with_refresh"] else "noref") if long_window else "")
        cfg["cost"] = corecfg.cost_of(mem, nports, 4000)
        out.append(cfg)
    return out


def run_case(cfg):
    from .. import wholecore as W_
    phy, geom, timing, clk, _ = W_.build_settings(cfg["mem"])
    if cfg.get("trefi_override"):
        timing.tREFI = max(cfg["trefi_override"], 3 * (timing.tRP + timing.tRFC) + 20)
    nb = phy.nranks << geom.bankbits
    K, W = bounds(timing, phy, cfg["cs"], nb, cfg["nports"])
    if cfg["workload"]["class"] == "yielding":
        # the adversary pauses long enough for the bank queue to drain
        cfg["workload"]["yield_gap"] = (cfg["cs"]["cmd_buffer_depth"] + 3) * (timing.tRP + timing.tRCD + 12) + 40
    run_len = min(3 * W + 200, 9000)
    cfg["stop_offering_at"] = run_len
    cfg["max_cycles"] = run_len + 6000
    tr = W_.run_case(cfg)
    if tr.reason == "wall":
        return dict(verdict="inconclusive", why="wall-clock watchdog", violations=[], stats={}, nontrivial=False, signature="")
    import bisect
    v = []
    windows = dict(read_time=cfg["cs"].get("read_time", 32), write_time=cfg["cs"].get("write_time", 16),
                   refresh_interval=timing.tREFI if cfg["cs"].get("with_refresh", True) else None)
    victim = tr.masters[0]
    others = tr.masters[1:]
    acc_times = {m.idx: [o.accept for o in m.accepted] for m in others}
    max_over = 0
    max_wait_cmd = max_wait_data = 0
    completed = 0
    end = tr.cycles

    def overtaken(a, b):
        best = (0, None)
        for idx, lst in acc_times.items():
            n = bisect.bisect_left(lst, b) - bisect.bisect_right(lst, a)
            if n > best[0]:
                best = (n, idx)
        return best

    # every command of the victim, including the one still being offered / waiting for data at the end
    ops = list(victim.accepted)
    pending_cmd = None
    for o in victim.ops:
        if o.offer is not None and o.accept is None:
            pending_cmd = o
            break
    for o in ops + ([pending_cmd] if pending_cmd else []):
        t_off = o.offer
        t_acc = o.accept if o.accept is not None else end
        w = t_acc - t_off
        n, who = overtaken(t_off, t_acc)
        max_over = max(max_over, n)
        max_wait_cmd = max(max_wait_cmd, w)
        if w > 2 * W:
            v.append(dict(kind="victim-command-not-accepted-in-bound", op=o.brief(), waited_cycles=w, bound_cycles=2 * W,
                          overtaken_by_port=who, overtaking=n, bound_overtaking=K,
                          still_waiting=o.accept is None, windows=windows,
                          victim_bank=tr.amap.locate(o.addr)[:2],
                          overtaker_banks=sorted(set(tr.amap.locate(x.addr)[:2] for x in tr.masters[who].accepted
                                                     if t_off <= x.accept <= t_acc)) if who is not None else None))
            break
        if o.accept is not None:
            t_done = o.done if o.done is not None else end
            w2 = t_done - o.accept
            n2, who2 = overtaken(o.accept, t_done)
            max_over = max(max_over, n2)
            max_wait_data = max(max_wait_data, w2)
            if o.done is not None:
                completed += 1
            if w2 > 2 * W:
                v.append(dict(kind="victim-data-not-served-in-bound", op=o.brief(), waited_cycles=w2, bound_cycles=2 * W,
                              overtaken_by_port=who2, overtaking=n2, bound_overtaking=K, still_waiting=o.done is None,
                              windows=windows))
                break
    if tr.state["hang"]:
        v.append(dict(kind="deadlock-drain-bound-exceeded", detail=tr.state["hang"]))
    # direction starvation is visible as the victim's own wait; also report mux direction switches seen on DFI
    switches = 0
    last = None
    for c in sorted(tr.ref.cmds, key=lambda c: c[0]):
        if c[4] in ("RD", "WR"):
            if last is not None and last != c[4]:
                switches += 1
            last = c[4]
    st = dict(K=K, W=W, max_overtaking=max_over, max_cmd_wait=max_wait_cmd, max_data_wait=max_wait_data,
              victim_completed=completed, victim_offered=len(ops) + (1 if pending_cmd else 0), cycles=tr.cycles,
              adversary_accepted=sum(len(m.accepted) for m in others), direction_switches=switches,
              refs=tr.ref.counts.get("REF", 0))
    nontrivial = (completed >= 10 and st["adversary_accepted"] >= 50) or bool(v)
    mem = cfg["mem"]
    sig = "|".join(str(x) for x in (mem["family"], cfg["workload"]["class"], cfg["nports"], cfg["cs"]["cmd_buffer_depth"]))
    st["history_sample"] = (W_ if "W_" in dir() else W).trace_sample(tr)
    return dict(verdict="violated" if v else "held", violations=v[:6], stats=st, nontrivial=nontrivial, signature=sig)


def aggregate(results, cases):
    by = {c["name"]: c for c in cases}
    per = {}
    for r in results:
        c = by.get(r["name"])
        st = r.get("stats") or {}
        if not c or not st:
            continue
        e = per.setdefault(c["workload"]["class"], dict(cases=0, max_overtaking=0, max_cmd_wait=0, max_data_wait=0,
                                                         victim_completed=0, direction_switches=0))
        e["cases"] += 1
        for k in ("max_overtaking", "max_cmd_wait", "max_data_wait"):
            e[k] = max(e[k], st.get(k, 0) or 0)
        e["victim_completed"] += st.get("victim_completed", 0) or 0
        e["direction_switches"] += st.get("direction_switches", 0) or 0
    samples = [dict(case=r["name"], verdict=r["verdict"], stats=r.get("stats")) for r in results[:3]]
    return dict(per_class=per, samples=samples)


def summary(cov):
    return "  observed per class: " + "; ".join("%s: n=%d maxover=%d maxwait=%d/%d done=%d" % (
        k, d["cases"], d["max_overtaking"], d["max_cmd_wait"], d["max_data_wait"], d["victim_completed"])
        for k, d in sorted(cov["per_class"].items()))
