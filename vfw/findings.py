"""Classifier predicates for known findings: (witness, case) -> bool.  Keyed by mechanism, never by
seed / hash / random values.  Referenced by name from /verif/known_findings.json."""
