"""Classifier predicates for known findings: (witness, case) -> bool.  Keyed by mechanism, never by
seed / hash / random values.  Referenced by name from /verif/known_findings.json."""


# ------------------------------------------------------------------------------------------------ C17
def c17_wr_derived_from_twtr(v, case):
    """init.py derives MR0.WR from the controller's tWTR (DDR3: max(tWTR*nphases, 5), DDR4: max(tWTR*nphases, 10)) and
    programs the constant WR=3 for DDR2; above some clocks that is shorter than the datasheet tWR.  Accepts a witness
    only if *every* problem in it is a too-short WR whose programmed value is exactly what that derivation gives."""
    if v.get("kind") != "init-contract":
        return False
    probs = v.get("problems") or []
    if not probs:
        return False
    for p in probs:
        if p.get("problem") != "write recovery shorter than datasheet tWR":
            return False
        mt = v.get("memtype")
        wr = p.get("WR_programmed")
        twtr, n = p.get("controller_tWTR_cycles"), p.get("nphases")
        if mt == "DDR2":
            if wr != 3:
                return False
        elif mt == "DDR3":
            if twtr is None or wr != max(twtr * n, 5):
                return False
        elif mt == "DDR4":
            if twtr is None or wr != max(twtr * n, 10):
                return False
        else:
            return False
    return True


def c17_py_header_without_clam_shell(v, case):
    """get_sdram_phy_py_header has no clam-shell handling: the C header emits every MRS twice (top / bottom chip-select
    flags, swapped address bits for the bottom), the Python header once, without the flags."""
    if v.get("kind") != "header-mismatch" or not v.get("clam_shell"):
        return False
    if v.get("problem") == "C and Python headers have different numbers of steps":
        return v.get("c_steps", 0) > v.get("py_steps", 0)
    if v.get("problem") == "C and Python headers differ":
        c, p = v.get("c", {}), v.get("py", {})
        return (c.get("a") == p.get("a") and c.get("ba") == p.get("ba") and c.get("delay") == p.get("delay")
                and int(c.get("cmd", "0"), 16) == (int(p.get("cmd", "0"), 16) | 0x40))
    return False


# ------------------------------------------------------------------------------------------------ C07
def c07_upconverter_sel_loses_order(v, case):
    """LiteDRAMNativePortUpConverter records the chunks of a merge window as a bit mask (`sel`) and pairs write data /
    returns read data in *chunk* order, not command order: a window in which a chunk index does not increase (descending,
    repeated or random addresses inside one wide word without cmd.last in between) swaps data, and a repeated chunk
    leaves the beat counts unequal (hang).  Accepts only witnesses of the up-converter at or after the first such
    non-increasing command of the case; class-M cases (every window strictly increasing) are never accepted."""
    if v.get("direction") != "up":
        return False
    nm = v.get("first_nonmonotone_seq")
    if nm is None:
        return False
    if v.get("kind") == "read-data-mismatch":
        ws = v.get("witness_seq")
        return ws is not None and ws >= nm - 0
    return v.get("kind") in ("final-store-differs-from-model", "no-progress-after-final-flush", "user-read-beat-count",
                             "user-write-beat-count", "controller-side-beat-count", "read-beat-without-pending-read")


# ------------------------------------------------------------------------------------------------ C08
def c08_cdc_fifos_overcommitted(v, case):
    """LiteDRAMNativePortCDC has no flow control for the pulsed data channels: the core strobes wdata.ready / rdata.valid
    regardless of the FIFO state, so the crossing only works while its data FIFOs can absorb everything that can be in
    flight (cmd FIFO depth + commands the core holds for one port).  The crossbar's fixed 4/16/16 depths cover
    cmd_buffer_depth <= 8 only.  Accepts a witness only in cases where the relevant FIFO is smaller than that bound."""
    k = v.get("kind")
    ow, orr = v.get("overcommitted_wdata"), v.get("overcommitted_rdata")
    if k in ("wdata-underrun", "wdata-channel-differs"):
        return bool(ow)
    if k in ("rdata-dropped", "rdata-channel-differs", "read-beat-count"):
        return bool(orr)
    if k in ("read-data-mismatch", "no-progress", "read-beat-without-pending-read"):
        return bool(ow or orr)
    return False


# ------------------------------------------------------------------------------------------------ C05
def c05_bank_lockout(v, case):
    """The crossbar's per-bank arbiter only re-arbitrates while the bank is neither requested by its current owner nor
    locked (arbiter.ce = ~bank.valid & ~bank.lock): a port that keeps one bank's queue non-empty owns the bank for as long
    as it likes.  Accepts only witnesses in which the victim waited for *acceptance* on a bank while the overtaking port's
    commands during that wait all went to that same bank."""
    if v.get("kind") != "victim-command-not-accepted-in-bound":
        return False
    vb = v.get("victim_bank")
    ob = v.get("overtaker_banks")
    if vb is None or not ob:
        return False
    return [list(x) for x in ob] == [list(vb)]


def c05_direction_window_restarts_at_refresh(v, case):
    """The anti-starvation counters of the multiplexer are reloaded whenever the FSM leaves READ / WRITE, also for a
    refresh: a direction window that is longer than the refresh interval never expires.  Accepts only witnesses of a
    configuration in which the window of the direction *opposite* to the starved command is longer than the refresh
    interval."""
    if v.get("kind") not in ("victim-data-not-served-in-bound", "victim-command-not-accepted-in-bound"):
        return False
    w = v.get("windows") or {}
    op = v.get("op") or {}
    if not w or "we" not in op:
        return False
    opposite = w.get("read_time", 0) if op["we"] else w.get("write_time", 0)
    ri = w.get("refresh_interval")     # None: refresh disabled
    return ri is not None and opposite > ri


# ------------------------------------------------------------------------------------------------ C13
def c13_bypass_partial_word_flush(v, case):
    """LiteDRAMFIFO(with_bypass=True) with a DRAM word wider than the stream word: when the DRAM path runs empty while the
    pre-converter holds a partial DRAM word, the PUMP_PRECONVERTER / DRAIN_POSTCONVERTER states complete the word with
    padding beats, and nothing removes the padding again: extra words appear on the output and the FSM can stay in
    DRAIN_POSTCONVERTER for ever.  Accepts only witnesses of runs with bypass, ratio > 1 that visited those states."""
    if not (v.get("bypass") and (v.get("ratio") or 1) > 1 and v.get("visited_pump_or_drain_state")):
        return False
    return v.get("kind") in ("output-stream-differs", "more-words-out-than-in", "no-progress")


def c13_bypass_early_return_reorders(v, case):
    """LiteDRAMFIFO(with_bypass=True), DRAM word ratio > 1: the mode FSM returns to BYPASS as soon as its DRAM word counter
    is zero, although a complete DRAM word can still be waiting at the pre-converter's output (it is only counted when the
    DRAM FIFO accepts it): the following stream words take the bypass and overtake it; in BYPASS the DRAM path's output
    is disconnected, so when the stream then ends the overtaken words stay inside (at most one DRAM word plus one
    partial word).  Nothing is invented or duplicated: accepts only witnesses where the output is a sub-multiset of the
    input (a permutation when everything came out), in runs that never used the pump/drain states; a stall is accepted
    only with the mode FSM in BYPASS and no more than 2*ratio - 1 stream words inside."""
    if not (v.get("bypass") and (v.get("ratio") or 1) > 1 and not v.get("visited_pump_or_drain_state")):
        return False
    if not (v.get("output_is_permutation_of_input") or v.get("output_is_submultiset_of_input")):
        return False
    if v.get("kind") == "output-stream-differs":
        return True
    if v.get("kind") == "no-progress":
        return v.get("fsm_state") == 0 and 0 < (v.get("words_still_inside") or 0) <= 2 * v["ratio"] - 1
    return False


# ------------------------------------------------------------------------------------------------ C14
def c14_addr_mask_in_bytes(v, case):
    """BIST generator/checker compute addr_mask = (end - base) - 1 in *bytes* but apply it to the word index: with ports
    wider than one byte, random addresses and sequential runs longer than the range reach up to word_bytes times beyond
    `end` (the pinned test test_bist '32bit_masked' asserts this behaviour).  Accepts only out-of-range writes whose word
    offset from base is still below the byte count of the range (what that mask lets through)."""
    if v.get("kind") != "generator-write-outside-range":
        return False
    off, rb, wb = v.get("offset_words"), v.get("range_bytes"), v.get("word_bytes")
    if off is None or rb is None or wb is None or wb <= 1:
        return False
    return (rb // wb) <= off < rb


# ------------------------------------------------------------------------------------------------ C09
_C09_CONSEQUENCES = ("B-id-wrong-or-out-of-order", "missing-B-responses", "no-progress", "more-B-responses-than-AW",
                     "B-for-burst-whose-data-never-reached-memory")


def c09_id_buffer_overflow(v, case):
    """LiteDRAMAXI2NativeW pushes the AW id into id_buffer (depth = w_buffer_depth) without looking at its ready, while the
    buffered w_buffer lets w_buffer_depth+1 single-beat bursts be in flight between command acceptance and the memory-side
    data strobe: the id of the extra burst is dropped and later B responses carry stale / shifted ids.  Accepts only
    witnesses of runs in which more bursts than w_buffer_depth were measured in flight at the native boundary."""
    return (v.get("kind") in _C09_CONSEQUENCES and not v.get("rmw")
            and (v.get("peak_write_bursts_in_flight") or 0) > (v.get("w_buffer_depth") or 1 << 30))


def c09_resp_buffer_overflow(v, case):
    """The B response is pushed into resp_buffer (depth = w_buffer_depth) in the cycle the burst's last data beat is handed
    to the memory, without looking at resp_buffer's ready (the memory-side strobe cannot be stalled): when the master
    holds BREADY low while more than w_buffer_depth bursts complete, responses are lost.  Accepts only witnesses of runs in
    which more completed-but-unacknowledged bursts than w_buffer_depth were measured."""
    return (v.get("kind") in _C09_CONSEQUENCES and not v.get("rmw")
            and (v.get("peak_responses_pending") or 0) > (v.get("w_buffer_depth") or 1 << 30))


def c09_rmw_pairs_bus_beat_with_head_command(v, case):
    """with_read_modify_write=True: the RMW FSM decides on the W beat currently on the AXI bus but addresses it with the
    head of the AW beat stream; when earlier W beats are still buffered and not yet commanded (legal: W data may run
    ahead of AW) the partial beat is merged into the wrong address.  Accepts only RMW-mode witnesses of runs in which a
    partial-strobe beat was measured on the bus before the previous beat's write command had been accepted."""
    return bool(v.get("rmw") and v.get("partial_beat_on_bus_before_previous_beat_commanded")
                and v.get("kind") in ("read-data-not-explained-by-any-legal-order", "final-store-differs-from-model", "no-progress",
                                      "B-id-wrong-or-out-of-order", "missing-B-responses", "read-burst-short"))


# ------------------------------------------------------------------------------------------------ C10
def c10_abort_in_write_data_phase(v, case):
    """LiteDRAMWishbone2Native, bus as wide as or wider than the port: port.wdata.valid is wishbone.stb & wishbone.we.  When
    the master drops cyc/stb after the write command was accepted but before the (pulsed) wdata.ready strobe, the strobe
    finds no data (the real crossbar then stores whatever is on the bus under whatever `sel` shows) and the FSM stays in
    WRITE waiting for a strobe that never comes again: later accesses hang or read the garbage.
    (If the next access has already started when the strobe arrives, the strobe takes *its* data for the old address and
    acknowledges it: no underrun, but the new write never reaches its own address.)
    Accepts only witnesses of runs on the equal / wide path in which the master dropped a *write* after the memory side had
    accepted its command (measured by the harness; runs that only abort reads never qualify)."""
    return bool(v.get("path") in ("equal", "wide") and (v.get("write_aborts_after_command_accepted") or 0) > 0
                and v.get("kind") in ("no-ack-within-bound", "wdata-underrun", "stored-byte-outside-model-set", "read-byte-not-in-model-set"))


# ------------------------------------------------------------------------------------------------ C11
_C11_SYMPTOMS = ("final-store-differs-from-model", "read-data-mismatch", "write-beat-not-accepted-within-bound",
                 "read-command-not-accepted-within-bound", "read-data-not-complete-within-bound", "readdatavalid-without-pending-read",
                 "wdata-underrun")


def c11_write_commands_gated_on_data_fifo(v, case):
    """LiteDRAMAvalonMM2Native BURST_WRITE offers a queued write command only while its write-data FIFO is non-empty
    (`cmd_fifo.source.valid & (0 < wdata_fifo.level)`).  Behind a narrower Avalon bus sits the native up-converter, which
    takes write data ahead of the commands: when the master pauses inside a burst the data FIFO drains while commands are
    still queued, and once the last beat has been taken those commands are never offered again -- the burst never ends.
    (Until the burst-exit fix this was hidden behind the 'burst left on a master gap' defect.)  Accepts only witnesses on the
    up-converting path of runs in which the master inserted an idle gap inside a write burst."""
    return bool(v.get("path") == "up" and (v.get("mid_burst_gaps_in_run") or 0) > 0 and v.get("kind") in _C11_SYMPTOMS)


def c11_upconverted_burst_never_flushed(v, case):
    """Avalon bus narrower than the port: burst beats go through the native up-converter without cmd.last / flush, so a
    burst that does not start and end on a wide-word boundary leaves a partial wide word (write) or the last chunks of a
    read waiting in the converter for ever; the bridge then never finishes the burst or accepts the next access.
    Accepts only witnesses on the up-converting path of runs that contained such an unaligned burst."""
    return bool(v.get("path") == "up" and (v.get("bursts_not_aligned_to_wide_word_in_run") or 0) > 0
                and v.get("kind") in _C11_SYMPTOMS)


# ------------------------------------------------------------------------------------------------ C19
def c19_model_column_includes_a10(v, case):
    """SDRAMPHYModel takes the column as address[:colbits]: for devices with more than 10 column bits it uses A10 (the
    auto-precharge flag) as column bit 10 and drops A11, so columns >= 1024 and auto-precharged accesses hit the wrong
    location.  Accepts only data divergences on geometries with colbits > 10."""
    return bool((v.get("colbits") or 0) > 10 and v.get("kind") in ("model-read-data-differs-from-reference", "read-data-mismatch"))


# ------------------------------------------------------------------------------------------------ C20
def c20_basic_check_masks_after_suppressed(v, case):
    """CommandsPipeline with the default (basic) overlap check looks at the commands *presented* on the previous phases,
    not at those actually emitted: a command that follows a suppressed command within the window is suppressed as well,
    although nothing is in flight.  Accepts only such witnesses: basic check, command missing, and every earlier command
    in its window was itself not emitted."""
    if v.get("kind") != "command-suppressed-although-nothing-in-flight" or v.get("extended_check"):
        return False
    w = v.get("earlier_commands_in_window") or []
    return bool(w) and all(not x.get("emitted") for x in w)


def c20_extended_check_window_truncated(v, case):
    """CommandsPipeline with extended_overlaps_check=True recomputes 'was actually emitted' over a history of only the
    previous controller cycle and assumes that its oldest entries were emitted; when a run of overlapping commands began
    two or more cycles earlier the recomputed history disagrees with what was really sent, and commands are dropped or
    emitted on top of each other.  Accepts only witnesses of the extended check that lie within 3 slots of a command for
    which that truncated-window recomputation (emulated in the harness from the presented commands alone) decides
    differently from the sequential rule of the property."""
    return bool(v.get("extended_check") and v.get("within_3_slots_of_a_truncated_window_decision") and v.get("kind") in (
        "command-suppressed-although-nothing-in-flight", "unexpected-command-on-the-pads", "cs-high-on-two-consecutive-slots",
        "emitted-command-differs"))


# ------------------------------------------------------------------------------------------------ C03
def c03_clock_count_minimum_without_phase_margin(v, case):
    """modules.py converts the *clock-count* part of a datasheet minimum with ceil(ck / nphases) and no phase margin (only
    the nanosecond part gets one).  When the clock count dominates (low DRAM clocks) and the two commands sit on different
    phases -- activates are issued on the read command phase in READ state and on the write command phase in WRITE state --
    the spacing on the bus is up to nphases-1 clocks short (K4T1G164QG, tRRD=(4 ck, 10 ns), 1:2 at 100 MHz: 3 tCK).
    Accepts only witnesses where the requirement comes from the clock count, the controller kept its own cycle count
    (cycles apart * nphases >= requirement) and the shortfall is smaller than nphases."""
    if v.get("kind") != "timing" or v.get("requirement_from") != "ck":
        return False
    n, need, act = v.get("nphases") or 1, v.get("required_tck"), v.get("actual_tck")
    apart = v.get("controller_cycles_apart")
    if None in (need, act, apart) or n < 2:
        return False
    return (need - act) < n and apart * n >= need and (v.get("phase_second") or 0) < (v.get("phase_first") or 0)
