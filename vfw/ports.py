"""Port-side drivers (see DESIGN.md 2.4).  All processes follow: sample -> update model -> drive."""
from collections import deque


class Op:
    __slots__ = ("gap", "we", "addr", "data", "wemask", "seq", "offer", "accept", "done", "tag", "last")

    def __init__(self, gap, we, addr, data=0, wemask=0, tag=None, last=0):
        self.last = last
        self.gap = gap
        self.we = we
        self.addr = addr
        self.data = data
        self.wemask = wemask
        self.seq = None
        self.offer = None
        self.accept = None
        self.done = None
        self.tag = tag

    def brief(self):
        return dict(seq=self.seq, we=int(self.we), addr=self.addr, data=hex(self.data) if self.we else None,
                    wemask=hex(self.wemask) if self.we else None, offer=self.offer, accept=self.accept,
                    done=self.done)


class MemOracle:
    """Sequential byte-map model; commands applied in acceptance order (DESIGN.md 2.5)."""

    def __init__(self, word_bytes, init=None):
        self.word_bytes = word_bytes
        self.mem = {}           # addr -> bytearray
        self.init = init        # function addr -> bytes, or None (unknown: first read defines?)
        self.hist = {}          # addr -> list of (port, seq, accept cycle, data, wemask)
        self.unknown = set()

    def _get(self, addr):
        w = self.mem.get(addr)
        if w is None:
            if self.init is not None:
                w = bytearray(self.init(addr))
            else:
                w = None
            self.mem[addr] = w
        return w

    def write(self, port, seq, cyc, addr, data, wemask):
        n = self.word_bytes
        w = self._get(addr)
        if w is None:
            w = [None] * n
            self.mem[addr] = w
        d = data.to_bytes(n, "little")
        for i in range(n):
            if (wemask >> i) & 1:
                w[i] = d[i]
        self.hist.setdefault(addr, []).append((port, seq, cyc, hex(data), hex(wemask)))

    def expect(self, addr):
        """Returns list of per-byte expected values (None = unknown initial content)."""
        w = self._get(addr)
        if w is None:
            return [None] * self.word_bytes
        return list(w)

    def learn(self, addr, data):
        """Unknown initial bytes take the first value read (only when no init function)."""
        w = self.mem.get(addr)
        n = self.word_bytes
        d = data.to_bytes(n, "little")
        if w is None:
            self.mem[addr] = bytearray(d)
        else:
            for i in range(n):
                if w[i] is None:
                    w[i] = d[i]


class NativeMaster:
    """Contract master for a LiteDRAMNativePort.

    Holds each command until accepted; write data is queued no later than the command is offered and
    held until taken; rdata.ready constantly 1.  mode="strict": a write command is not offered while
    an earlier write's data is still waiting; mode="fifo": data beats wait in command order.
    """

    def __init__(self, port, ops, idx, oracle=None, mode="fifo", violations=None, name=None,
                 rdata_ready_fn=None):
        self.port = port
        self.ops = ops
        for i, o in enumerate(ops):
            o.seq = i
        self.idx = idx
        self.oracle = oracle
        self.mode = mode
        self.violations = violations if violations is not None else []
        self.accepted = []        # ops in acceptance order
        self.wq = deque()         # write ops whose data is waiting
        self.rq = deque()         # (op, expected bytes) reads awaiting data
        self.rbeats = 0
        self.wbeats = 0
        self.extra_rbeats = 0
        self.underruns = 0
        self.checked_reads = 0
        self.cycle = 0
        self.issued_all = False
        self.stop = False         # external request to stop offering new commands
        self.raw_same_port = 0
        self.on_accept = None     # callback(master, op, cycle)
        self.on_done = None
        self.max_cmd_wait = 0
        self.max_data_wait = 0
        self.use_last = False
        self.rdata_log = []
        self._cmd_valid = 0
        self.cmd_stalls = 0
        self.wdata_stalls = 0
        self.wdata_taken = []      # (data, wemask) in the order the beats were taken
        self.strobe_semantics = True   # False for stream-style user ports of front-ends (ready without valid is idle)
        # back-pressure on returned read data (stream-style user ports only): rdata.ready is 1 with this probability each
        # cycle, and -- like any master that stalls its read channel -- no more reads are kept outstanding than it has room for
        self.rdata_ready_prob = None
        self.max_reads_outstanding = None
        self.rdata_rng = None
        self.rdata_stalled_with_valid = 0
        # payload signals are don't-care while valid is low: a scrambling master drives random values on them then
        self.scramble_rng = None
        # data_ahead = N: write data is queued up to N writes ahead of the commands (stream-style user ports only: "offers the
        # data of a write no later than the write command itself" allows earlier)
        self.data_ahead = 0
        self._ahead_idx = 0
        self._ahead = set()

    def idle(self):
        return (self.issued_all or self.stop) and not self.wq and not self.rq and not self._cmd_valid

    def process(self):
        yield "passive"
        port = self.port
        rd_sigs = [port.cmd.ready, port.wdata.ready, port.rdata.valid, port.rdata.data]
        ops = self.ops
        i = 0
        self._cmd_valid = cmd_valid = 0
        cur = None
        gap = None   # None: load from ops[i] when it exists
        wvalid = 0
        rready = 1
        yield [port.rdata.ready.eq(1), port.cmd.valid.eq(0), port.wdata.valid.eq(0)]
        yield
        self.cycle = 1
        while True:
            cready, wready, rvalid, rdata = yield rd_sigs
            cyc = self.cycle
            # ---------------- sample
            if cmd_valid:
                if not cready:
                    self.cmd_stalls += 1
                if cur.offer is None:
                    cur.offer = cyc
                if cready:
                    cur.accept = cyc
                    self.accepted.append(cur)
                    self.max_cmd_wait = max(self.max_cmd_wait, cyc - cur.offer)
                    if self.oracle is not None:
                        if cur.we:
                            self.oracle.write(self.idx, cur.seq, cyc, cur.addr, cur.data, cur.wemask)
                        else:
                            self.rq.append((cur, self.oracle.expect(cur.addr)))
                    elif not cur.we:
                        self.rq.append((cur, None))
                    if self.on_accept:
                        self.on_accept(self, cur, cyc)
                    cmd_valid = 0
                    i += 1
                    gap = None
                    if i >= len(ops):
                        self.issued_all = True
            if wvalid and not wready:
                self.wdata_stalls += 1
            if wready:
                if wvalid:
                    op = self.wq.popleft()
                    op.done = cyc
                    self.wbeats += 1
                    self.wdata_taken.append((op.data, op.wemask))
                    if op.accept is not None:
                        self.max_data_wait = max(self.max_data_wait, cyc - op.accept)
                    elif self.strobe_semantics:
                        self.violations.append(dict(kind="wdata-taken-before-command-accepted", port=self.idx,
                                                    cycle=cyc, op=op.brief()))
                    if self.on_done:
                        self.on_done(self, op, cyc)
                elif self.strobe_semantics:
                    # directly on the crossbar wdata.ready is a strobe: it only fires for an accepted write
                    self.underruns += 1
                    self.violations.append(dict(kind="wdata-strobe-without-pending-write", port=self.idx, cycle=cyc))
            if rvalid and not rready:
                self.rdata_stalled_with_valid += 1
            if rvalid and rready:
                self.rbeats += 1
                self.rdata_log.append(rdata)
                if self.rq:
                    op, exp = self.rq.popleft()
                    op.done = cyc
                    self.max_data_wait = max(self.max_data_wait, cyc - op.accept)
                    if exp is not None:
                        got = rdata.to_bytes(len(exp), "little")
                        bad = [k for k in range(len(exp)) if exp[k] is not None and exp[k] != got[k]]
                        self.checked_reads += 1
                        if any(e is None for e in exp) and self.oracle is not None:
                            self.oracle.learn(op.addr, rdata)
                        if bad:
                            self.violations.append(dict(
                                kind="read-data-mismatch", port=self.idx, cycle=cyc, op=op.brief(),
                                expected="".join("%02x" % (e if e is not None else 0) for e in reversed(exp)),
                                got="%0*x" % (2 * len(exp), rdata), bad_bytes=bad,
                                writes_to_addr=(self.oracle.hist.get(op.addr, [])[-6:] if self.oracle else None)))
                    if self.on_done:
                        self.on_done(self, op, cyc)
                else:
                    self.extra_rbeats += 1
                    self.violations.append(dict(kind="read-beat-without-pending-read", port=self.idx, cycle=cyc,
                                                data=hex(rdata)))
            # ---------------- drive
            stmts = []
            if not cmd_valid and i < len(ops) and not self.stop:
                if gap is None:
                    gap = ops[i].gap
                if gap > 0:
                    gap -= 1
                else:
                    nxt = ops[i]
                    if nxt.we and self.mode == "strict" and self.wq:
                        pass  # wait until the previous write's data was taken
                    elif not nxt.we and self.max_reads_outstanding is not None and len(self.rq) >= self.max_reads_outstanding:
                        pass  # no room reserved for another read word
                    else:
                        cur = nxt
                        cmd_valid = 1
                        stmts += [port.cmd.valid.eq(1), port.cmd.we.eq(int(cur.we)), port.cmd.addr.eq(cur.addr)]
                        if self.use_last:
                            stmts.append(port.cmd.last.eq(int(cur.last)))
                        if cur.we and id(cur) not in self._ahead:
                            self.wq.append(cur)
            if self.data_ahead and not self.stop and self.mode == "fifo":
                # queue the data of upcoming writes (in command order) before their commands are offered
                self._ahead_idx = max(self._ahead_idx, i + (1 if cmd_valid else 0))
                waiting = sum(1 for o in self.wq if o.offer is None and o is not cur)
                while waiting < self.data_ahead and self._ahead_idx < len(ops):
                    o = ops[self._ahead_idx]
                    self._ahead_idx += 1
                    if o.we:
                        self._ahead.add(id(o))
                        self.wq.append(o)
                        waiting += 1
            if not cmd_valid and self._cmd_valid:
                stmts.append(port.cmd.valid.eq(0))
            if not cmd_valid and self.scramble_rng is not None:
                sr = self.scramble_rng
                nxt_addr = ops[i].addr if (i < len(ops) and sr.random() < 0.5) else sr.getrandbits(len(port.cmd.addr))
                stmts += [port.cmd.addr.eq(nxt_addr), port.cmd.we.eq(sr.getrandbits(1)), port.cmd.last.eq(sr.getrandbits(1))]
            self._cmd_valid = cmd_valid
            if self.rdata_ready_prob is not None:
                nrr = 1 if self.rdata_rng.random() < self.rdata_ready_prob else 0
                if nrr != rready:
                    stmts.append(port.rdata.ready.eq(nrr))
                    rready = nrr
            new_wvalid = 1 if self.wq else 0
            if new_wvalid:
                head = self.wq[0]
                if head is not getattr(self, "_whead", None) or not wvalid:
                    stmts += [port.wdata.valid.eq(1), port.wdata.data.eq(head.data), port.wdata.we.eq(head.wemask)]
                    self._whead = head
            elif wvalid:
                stmts.append(port.wdata.valid.eq(0))
                self._whead = None
            if not new_wvalid and self.scramble_rng is not None:
                stmts += [port.wdata.data.eq(self.scramble_rng.getrandbits(len(port.wdata.data))),
                          port.wdata.we.eq(self.scramble_rng.getrandbits(len(port.wdata.we)))]
            wvalid = new_wvalid
            if stmts:
                yield stmts
            yield
            self.cycle = cyc + 1
