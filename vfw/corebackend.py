"""The real memory core as a back-end for the front-end checks (C09..C15).

The front-end under test is attached to native ports handed out by the real LiteDRAMCrossbar in
front of the real LiteDRAMController; the reference DRAM (refdram.py) sits on the DFI.  The object
offers the observation interface of stub.CoreStub / stub.Store, so the oracles of the checks are
unchanged: what they judge is what crossed the crossbar port (passive monitor) and what ended up
in the DRAM (reference model contents, located through the independent address map).

Geometry is small (64-word rows, 4 banks, 11 row bits so that A10 exists on the bus, refresh every ~110 cycles) so that short runs cross
rows and banks and meet several refreshes."""
from collections import deque

from . import shim  # noqa: F401
from .core import CoreDUT, AddressMap
from .refdram import RefDRAM


class CoreStoreView:
    """Store-like view (word address of the *core* port) of the reference DRAM contents."""

    def __init__(self, ref, amap, word_bytes):
        self.ref = ref
        self.amap = amap
        self.word_bytes = word_bytes
        self.write_log = []
        self.read_log = []

    def get(self, addr):
        rank, bank, row, colw = self.amap.locate(addr)
        return self.ref.get(rank, bank, row, colw)

    def pattern(self, addr, nbytes):
        """initial contents of a word (as stub.Store.pattern)"""
        rank, bank, row, colw = self.amap.locate(addr)
        return self.ref.init_fn(rank, bank, row, colw, nbytes)

    @property
    def mem(self):
        """touched words: core word address -> bytearray (as stub.Store.mem)"""
        return {self.amap.compose(rank, bank, row, col): w for (rank, bank, row, col), w in self.ref.store.items()}

    def read(self, addr):
        return int.from_bytes(self.get(addr), "little")

    def write(self, addr, data, we):
        w = self.get(addr)
        d = data.to_bytes(self.word_bytes, "little")
        for i in range(self.word_bytes):
            if (we >> i) & 1:
                w[i] = d[i]

    def byte(self, byte_addr):
        return self.get(byte_addr // self.word_bytes)[byte_addr % self.word_bytes]


class CoreBackend:
    def __init__(self, nports, databits=32, refresh=True, cmd_buffer_depth=8, bankbits=2, rowbits=11, colbits=6,
                 port_specs=None, trefi=110, read_latency=4, auto_precharge=False, init_fn=None):
        from .wholecore import build_settings
        mem = dict(kind="synthetic", memtype="SDR", nphases=1, databits=databits, bankbits=bankbits, rowbits=rowbits,
                   colbits=colbits, read_latency=read_latency, write_latency=0,
                   timing=dict(tRP=2, tRCD=2, tWR=2, tWTR=2, tREFI=trefi, tRFC=12, tFAW=None, tCCD=1, tRRD=None, tRC=None,
                               tRAS=None, tZQCS=None))
        phy, geom, timing, clk, _ = build_settings(mem)
        cs = dict(cmd_buffer_depth=cmd_buffer_depth, with_refresh=refresh, with_auto_precharge=auto_precharge)
        self.dut = CoreDUT(phy, geom, timing, clk, cs, port_specs or [dict() for _ in range(nports)])
        self.ports = self.dut.ports
        self.word_bytes = phy.dfi_databits // 8
        self.amap = AddressMap("SDR", 1, 1, geom.bankbits, geom.rowbits, geom.colbits, self.word_bytes, 0)
        self.ref = RefDRAM(self.dut.dfi, 1, 1, geom.bankbits, phy.dfi_databits, phy.read_latency, phy.write_latency, 0, 0, init_fn=init_fn)
        self.store = CoreStoreView(self.ref, self.amap, self.word_bytes)
        # the crossbar-side native ports (where the pulses are): for a converted port the user side is a stream
        self.native = [getattr(p, "_verif_native", p) for p in self.ports]
        n = len(self.ports)
        self.queues = [deque() for _ in range(n)]
        self.accepted = [[] for _ in range(n)]
        self.rbeats = [[] for _ in range(n)]
        self.wbeats = [[] for _ in range(n)]
        self.events = []
        self.seq = 0
        self.cycle = 0
        self.max_out_seen = 0

    def outstanding(self):
        return sum(len(q) for q in self.queues)

    def writes_done(self, port=0):
        return len(self.wbeats[port])

    def write_sequence(self, port=0):
        return [(a, d, we) for (_, a, d, we, valid) in self.wbeats[port] if valid]

    def dfi_events(self):
        return [dict(e, kind="dfi-" + e["kind"]) for e in self.ref.events]

    def processes(self):
        return [self.ref.process(), self.monitor()]

    def monitor(self):
        """passive: records what crosses each crossbar port.  Data phases belong to commands in acceptance order per port."""
        yield "passive"
        ports = self.ports
        sigs = []
        for p in ports:
            sigs += [p.cmd.valid, p.cmd.ready, p.cmd.we, p.cmd.addr, p.wdata.valid, p.wdata.ready, p.wdata.data, p.wdata.we,
                     p.rdata.valid, p.rdata.ready, p.rdata.data]
        while True:
            vals = yield sigs
            cyc = self.cycle
            for i in range(len(ports)):
                cv, cr, cwe, ca, wv, wr, wd, wwe, rv, rr, rd = vals[11 * i:11 * i + 11]
                q = self.queues[i]
                # data phases first: a strobe in the same cycle as an acceptance belongs to an earlier command
                if wr:
                    e = next((x for x in q if x["we"]), None)
                    if e is None:
                        self.events.append(dict(kind="wdata-strobe-without-accepted-write", port=i, cycle=cyc))
                    else:
                        q.remove(e)
                        if wv:
                            self.wbeats[i].append((cyc, e["addr"], wd, wwe, 1))
                            self.store.write_log.append((e["seq"], i, e["addr"], wd, wwe, cyc))
                        else:
                            self.wbeats[i].append((cyc, e["addr"], None, None, 0))
                            self.events.append(dict(kind="wdata-underrun", port=i, cycle=cyc, addr=e["addr"], accepted_at=e["t_acc"],
                                                    note="core strobed wdata.ready for an accepted write but the front-end offered no data"))
                if rv:
                    e = next((x for x in q if not x["we"]), None)
                    if e is None:
                        self.events.append(dict(kind="rdata-without-accepted-read", port=i, cycle=cyc))
                    else:
                        q.remove(e)
                        if not rr:
                            self.events.append(dict(kind="rdata-dropped", port=i, cycle=cyc, addr=e["addr"], accepted_at=e["t_acc"],
                                                    note="core pulsed rdata.valid while the front-end held rdata.ready low"))
                        self.rbeats[i].append((cyc, e["addr"], rd, int(bool(rr))))
                        self.store.read_log.append((e["seq"], i, e["addr"], rd, cyc))
                if cv and cr:
                    self.seq += 1
                    q.append(dict(seq=self.seq, we=cwe, addr=ca, t_acc=cyc, port=i))
                    self.accepted[i].append((cyc, cwe, ca))
                    self.max_out_seen = max(self.max_out_seen, self.outstanding())
            self.cycle = cyc + 1
            yield
