"""Abstract core stub: a native-port *slave* that behaves as the real crossbar+controller is allowed to
(DESIGN.md 2.4).  cmd.ready stalls randomly; commands take effect in acceptance order per address;
wdata.ready / rdata.valid are single-cycle pulses regardless of valid/ready (as in the real crossbar),
at a random time >= min latency after the command was accepted, data phases in command order per port."""
from collections import deque


def default_pattern(addr, nbytes):
    x = (addr * 0x9E3779B1 + 0x7F4A7C15) & 0xFFFFFFFF
    out = bytearray(nbytes)
    for i in range(nbytes):
        x ^= (x << 13) & 0xFFFFFFFF
        x ^= x >> 17
        x ^= (x << 5) & 0xFFFFFFFF
        out[i] = x & 0xFF
    return out


class Store:
    """word-addressed backing store shared by the ports of one stub"""

    def __init__(self, word_bytes, pattern=default_pattern):
        self.word_bytes = word_bytes
        self.mem = {}
        self.pattern = pattern
        self.write_log = []     # (seqno, port, addr, data, we)
        self.read_log = []

    def get(self, addr):
        w = self.mem.get(addr)
        if w is None:
            w = bytearray(self.pattern(addr, self.word_bytes))
            self.mem[addr] = w
        return w

    def write(self, addr, data, we):
        w = self.get(addr)
        d = data.to_bytes(self.word_bytes, "little")
        for i in range(self.word_bytes):
            if (we >> i) & 1:
                w[i] = d[i]

    def read(self, addr):
        return int.from_bytes(self.get(addr), "little")

    def byte(self, byte_addr):
        return self.get(byte_addr // self.word_bytes)[byte_addr % self.word_bytes]


class StallGen:
    """ready/valid pattern generator: prob = probability of being ready; occasionally a long stall"""

    def __init__(self, rng, prob=0.7, long_stall=0.0, long_len=(50, 300)):
        self.rng = rng
        self.prob = prob
        self.long_stall = long_stall
        self.long_len = long_len
        self.hold = 0

    def next(self):
        if self.hold > 0:
            self.hold -= 1
            return 0
        if self.long_stall and self.rng.random() < self.long_stall:
            self.hold = self.rng.randint(*self.long_len)
            return 0
        return 1 if self.rng.random() < self.prob else 0


class CoreStub:
    def __init__(self, ports, store, rng, cmd_ready_prob=0.7, min_wr_lat=3, min_rd_lat=5, extra_lat=(0, 12),
                 long_stall=0.0, burst_lat=None, max_outstanding=24):
        self.ports = ports
        self.store = store
        self.rng = rng
        self.min_wr_lat = min_wr_lat
        self.min_rd_lat = min_rd_lat
        self.extra_lat = extra_lat
        self.stall = [StallGen(rng, cmd_ready_prob, long_stall) for _ in ports]
        self.queues = [deque() for _ in ports]     # per port: entries in acceptance order
        self.seq = 0
        self.cycle = 0
        self.events = []          # violation witnesses of the DUT (underrun / drop)
        self.accepted = [[] for _ in ports]   # (cycle, we, addr)
        self.accepted_last = [[] for _ in ports]   # cmd.last of each accepted command (same order)
        self.rbeats = [[] for _ in ports]     # (cycle, addr, data, taken)
        self.wbeats = [[] for _ in ports]     # (cycle, addr, data, we, valid)
        self.pending_writes = {}  # addr -> set of seq numbers of accepted-but-unapplied writes
        self.pending_reads = {}   # addr -> accepted-but-unanswered read entries
        self.max_outstanding = max_outstanding
        self.max_out_seen = 0
        self.lat_mode = None
        self.idle_cycles_with_cmd = 0

    def outstanding(self):
        return sum(len(q) for q in self.queues)

    def writes_done(self):
        return sum(1 for b in self.wbeats[0])

    def write_sequence(self):
        """(addr, data, we) of port 0's write beats that carried data, in order"""
        return [(a, d, we) for (_, a, d, we, valid) in self.wbeats[0] if valid]

    def process(self):
        yield "passive"
        ports = self.ports
        n = len(ports)
        sigs = []
        for p in ports:
            sigs += [p.cmd.valid, p.cmd.we, p.cmd.addr, p.wdata.valid, p.wdata.data, p.wdata.we, p.rdata.ready, p.cmd.last]
        ready = [0] * n
        wpulse = [None] * n     # entry whose wdata.ready pulse is on the wire this cycle
        rpulse = [None] * n
        last_phase_time = [0] * n
        yield [p.cmd.ready.eq(0) for p in ports] + [p.wdata.ready.eq(0) for p in ports] + [p.rdata.valid.eq(0) for p in ports]
        yield
        self.cycle = 1
        while True:
            vals = yield sigs
            cyc = self.cycle
            stmts = []
            for i, p in enumerate(ports):
                cv, cwe, caddr, wv, wd, wwe, rr, clast = vals[8 * i:8 * i + 8]
                # ---- sample: command acceptance
                if ready[i] and cv:
                    self.seq += 1
                    lat = (self.min_wr_lat if cwe else self.min_rd_lat) + self.rng.randint(*self.extra_lat)
                    e = dict(seq=self.seq, we=cwe, addr=caddr, t_acc=cyc, due=cyc + lat, port=i)
                    self.queues[i].append(e)
                    self.accepted[i].append((cyc, cwe, caddr))
                    self.accepted_last[i].append(clast)
                    if cwe:
                        self.pending_writes.setdefault(caddr, set()).add(self.seq)
                    else:
                        self.pending_reads.setdefault(caddr, []).append(e)
                    self.max_out_seen = max(self.max_out_seen, self.outstanding())
                # ---- sample: data phases that were on the wire in this cycle
                e = wpulse[i]
                if e is not None:
                    if wv:
                        # reads accepted *before* this write (on any port) must not observe it: capture their value now
                        for pr in self.pending_reads.get(e["addr"], ()):
                            if pr["seq"] < e["seq"] and "data" not in pr:
                                pr["data"] = self.store.read(e["addr"])
                        self.store.write(e["addr"], wd, wwe)
                        self.store.write_log.append((e["seq"], i, e["addr"], wd, wwe, cyc))
                        self.wbeats[i].append((cyc, e["addr"], wd, wwe, 1))
                    else:
                        self.events.append(dict(kind="wdata-underrun", port=i, cycle=cyc, addr=e["addr"], accepted_at=e["t_acc"],
                                                note="core strobed wdata.ready for an accepted write but the front-end offered no data"))
                        self.wbeats[i].append((cyc, e["addr"], None, None, 0))
                    s = self.pending_writes.get(e["addr"])
                    if s:
                        s.discard(e["seq"])
                    wpulse[i] = None
                    stmts.append(p.wdata.ready.eq(0))
                e = rpulse[i]
                if e is not None:
                    if not rr:
                        self.events.append(dict(kind="rdata-dropped", port=i, cycle=cyc, addr=e["addr"], accepted_at=e["t_acc"],
                                                note="core pulsed rdata.valid while the front-end held rdata.ready low"))
                    self.rbeats[i].append((cyc, e["addr"], e["data"], int(bool(rr))))
                    rpulse[i] = None
                    # the real crossbar broadcasts the controller's read bus to every port: data without valid is garbage
                    stmts += [p.rdata.valid.eq(0), p.rdata.data.eq(self.rng.getrandbits(len(p.rdata.data)))]
                # ---- drive: next data phase of this port (in command order)
                q = self.queues[i]
                if q:
                    e = q[0]
                    if cyc + 1 >= e["due"]:
                        if e["we"]:
                            q.popleft()
                            wpulse[i] = e
                            stmts.append(p.wdata.ready.eq(1))
                        else:
                            # a read takes effect after every earlier-accepted write to its address (any port)
                            s = self.pending_writes.get(e["addr"])
                            if not s or min(s) > e["seq"]:
                                q.popleft()
                                if "data" not in e:
                                    e["data"] = self.store.read(e["addr"])
                                self.pending_reads[e["addr"]].remove(e)
                                self.store.read_log.append((e["seq"], i, e["addr"], e["data"], cyc + 1))
                                rpulse[i] = e
                                stmts += [p.rdata.valid.eq(1), p.rdata.data.eq(e["data"])]
                # ---- drive: cmd.ready for the next cycle
                nr = self.stall[i].next() if self.outstanding() < self.max_outstanding else 0
                if nr != ready[i]:
                    stmts.append(p.cmd.ready.eq(nr))
                    ready[i] = nr
            if stmts:
                yield stmts
            yield
            self.cycle = cyc + 1
