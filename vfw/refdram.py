"""Independent reference DRAM attached to a DFI record (see DESIGN.md 2.3).

Written from the JEDEC command truth table and the DFI contract documented in PhySettings, not
from litedram/phy/model.py.  It is a *synchronous* testbench process: at edge n+1 it samples the
values the DFI master drove during cycle n and drives rddata for cycle n+1.

Everything is recorded, nothing is asserted inline:
  self.cmds     list of (t, cycle, phase, rank, name, bank, addr, a10)
  self.events   list of protocol events (dict) -- C02 turns them into verdicts
  self.rd_log   list of read bursts  (cycle, phase, rank, bank, row, col, data, open)
  self.wr_log   list of write bursts (cycle, phase, rank, bank, row, col, data, mask, open)
"""

NOP, ACT, RD, WR, PRE, REF, ZQC, MRS = "NOP", "ACT", "RD", "WR", "PRE", "REF", "ZQC", "MRS"


def decode(ras_n, cas_n, we_n):
    key = (ras_n, cas_n, we_n)
    return {
        (1, 1, 1): NOP,
        (0, 1, 1): ACT,
        (1, 0, 1): RD,
        (1, 0, 0): WR,
        (0, 1, 0): PRE,
        (0, 0, 1): REF,
        (1, 1, 0): ZQC,
        (0, 0, 0): MRS,
    }[key]


def init_pattern(rank, bank, row, col, nbytes):
    """Position dependent initial contents (so a never-written read is checkable)."""
    seed = (rank * 0x9E3779B1 + bank * 0x85EBCA6B + row * 0xC2B2AE35 + col * 0x27D4EB2F + 0x165667B1) & 0xFFFFFFFF
    out = bytearray(nbytes)
    x = seed or 1
    for i in range(nbytes):
        x ^= (x << 13) & 0xFFFFFFFF
        x ^= x >> 17
        x ^= (x << 5) & 0xFFFFFFFF
        out[i] = x & 0xFF
    return out


class RefDRAM:
    def __init__(self, dfi, nphases, nranks, bankbits, dfi_databits, read_latency, write_latency,
                 rdphase=None, wrphase=None, passive_data=False, poison=0xA5, init_fn=None):
        self.init_fn = init_fn or init_pattern
        self.dfi = dfi
        self.nphases = nphases
        self.nranks = nranks
        self.nbanks = 2 ** bankbits
        self.dfi_databits = dfi_databits
        self.word_bytes = dfi_databits * nphases // 8
        self.read_latency = read_latency
        self.write_latency = write_latency
        self.rdphase = rdphase
        self.wrphase = wrphase
        self.passive_data = passive_data  # do not drive rddata (listening beside another slave)
        self.poison = poison
        assert read_latency >= 1
        # state
        self.open_row = {}   # (rank, bank) -> row
        self.t_act = {}
        self.store = {}      # (rank, bank, row, col) -> bytearray
        self.cmds = []
        self.events = []
        self.rd_log = []
        self.wr_log = []
        self.cycle = 0
        self._pending_wr = []  # (due_cycle, entry)
        self._pending_rd = []  # (due_cycle, data int)
        self._due_set = set()
        self.written = set()
        self.counts = {}
        self.bigrams = set()
        self._last_cmd = None
        self.strobe_log = []   # (cycle, phase, rddata_en, wrdata_en) when set
        self.expected_rd = []  # passive mode: (due cycle, data, log entry)
        self.observed_rd = {}  # passive mode: cycle -> (rddata of all phases, rddata_valid bits) for cycles with an expected burst
        self.valid_cycles = [] # passive mode: cycles in which the other slave raised rddata_valid

    # ------------------------------------------------------------------------------------------
    def _sigs(self):
        sigs = []
        for p in self.dfi.phases:
            sigs += [p.cs_n, p.ras_n, p.cas_n, p.we_n, p.bank, p.address, p.rddata_en, p.wrdata_en]
        for p in self.dfi.phases:
            sigs += [p.wrdata, p.wrdata_mask]
        if self.passive_data:
            for p in self.dfi.phases:
                sigs += [p.rddata, p.rddata_valid]
        return sigs

    def get(self, rank, bank, row, col):
        key = (rank, bank, row, col)
        v = self.store.get(key)
        if v is None:
            v = bytearray(self.init_fn(rank, bank, row, col, self.word_bytes))
            self.store[key] = v
        return v

    def event(self, kind, **kw):
        kw["kind"] = kind
        kw["cycle"] = self.cycle
        self.events.append(kw)

    def process(self):
        """Migen simulation generator (passive)."""
        yield "passive"
        sigs = self._sigs()
        nph = self.nphases
        poison_word = int.from_bytes(bytes([self.poison]) * (self.dfi_databits // 8), "little")
        driving = False
        while True:
            vals = yield sigs
            cyc = self.cycle
            wrdata = 0
            wrmask = 0
            for ph in range(nph):
                wrdata |= vals[8 * nph + 2 * ph] << (ph * self.dfi_databits)
                wrmask |= vals[8 * nph + 2 * ph + 1] << (ph * self.dfi_databits // 8)
            # ---- commands of this cycle, phase by phase
            ncas = 0
            for ph in range(nph):
                cs_n, ras_n, cas_n, we_n, bank, addr, rden, wren = vals[8 * ph:8 * ph + 8]
                name = decode(ras_n, cas_n, we_n)
                if rden or wren:
                    self.strobe_log.append((cyc, ph, rden, wren))
                if name == NOP:
                    if rden or wren:
                        self.event("strobe-without-cas", phase=ph, rddata_en=rden, wrdata_en=wren)
                    continue
                ranks = [r for r in range(self.nranks) if not (cs_n >> r) & 1]
                if not ranks:
                    # deselected: a NOP for the DRAM, but the controller is not expected to do that
                    self.event("command-with-no-rank-selected", phase=ph, cmd=name)
                    continue
                if name in (RD, WR):
                    ncas += 1
                    if name == RD and not rden:
                        self.event("rd-without-rddata_en", phase=ph)
                    if name == WR and not wren:
                        self.event("wr-without-wrdata_en", phase=ph)
                    if name == RD and wren or name == WR and rden:
                        self.event("wrong-strobe", phase=ph, cmd=name)
                    if len(ranks) != 1:
                        self.event("cas-to-multiple-ranks", phase=ph, cmd=name, ranks=ranks)
                elif rden or wren:
                    self.event("strobe-without-cas", phase=ph, rddata_en=rden, wrdata_en=wren, cmd=name)
                a10 = (addr >> 10) & 1
                t = cyc * nph + ph
                for rank in ranks:
                    self._apply(t, cyc, ph, rank, name, bank, addr, a10)
            if ncas > 1:
                self.event("multiple-cas-in-one-cycle", n=ncas)
            # ---- write bursts whose data is on the bus in this cycle
            if self._pending_wr:
                rest = []
                for due, e in self._pending_wr:
                    if due == cyc:
                        self._commit_write(e, wrdata, wrmask)
                    else:
                        rest.append((due, e))
                self._pending_wr = rest
            if self.passive_data:
                base = 10 * nph
                rd = 0
                vbits = 0
                for ph in range(nph):
                    rd |= vals[base + 2 * ph] << (ph * self.dfi_databits)
                    vbits |= vals[base + 2 * ph + 1] << ph
                if vbits:
                    self.valid_cycles.append(cyc)
                if self._due_set and cyc in self._due_set:
                    self.observed_rd[cyc] = (rd, vbits)
            # ---- read data to drive for the next cycle
            self.cycle = cyc + 1
            if not self.passive_data:
                due_now = [d for (due, d) in self._pending_rd if due == self.cycle]
                if len(due_now) > 1:
                    self.event("two-read-bursts-collide")
                if due_now:
                    self._pending_rd = [(due, d) for (due, d) in self._pending_rd if due != self.cycle]
                    data = due_now[0]
                    mask = (1 << self.dfi_databits) - 1
                    stmts = []
                    for ph, p in enumerate(self.dfi.phases):
                        stmts.append(p.rddata.eq((data >> (ph * self.dfi_databits)) & mask))
                        stmts.append(p.rddata_valid.eq(1))
                    yield stmts
                    driving = True
                elif driving or cyc == 0:
                    stmts = []
                    for p in self.dfi.phases:
                        stmts.append(p.rddata.eq(poison_word))
                        stmts.append(p.rddata_valid.eq(0))
                    yield stmts
                    driving = False
            yield

    # ------------------------------------------------------------------------------------------
    def _apply(self, t, cyc, ph, rank, name, bank, addr, a10):
        self.cmds.append((t, cyc, ph, rank, name, bank, addr, a10))
        self.counts[name] = self.counts.get(name, 0) + 1
        if self._last_cmd is not None:
            self.bigrams.add((self._last_cmd, name))
        self._last_cmd = name
        key = (rank, bank)
        if name == ACT:
            if key in self.open_row:
                self.event("act-to-open-bank", rank=rank, bank=bank, row=addr, open_row=self.open_row[key], t=t)
            self.open_row[key] = addr
            self.t_act[key] = t
        elif name == PRE:
            if a10:
                for b in range(self.nbanks):
                    self.open_row.pop((rank, b), None)
            else:
                self.open_row.pop(key, None)
        elif name in (REF, ZQC):
            opened = [b for b in range(self.nbanks) if (rank, b) in self.open_row]
            if opened:
                self.event("%s-with-open-banks" % name.lower(), rank=rank, banks=opened, t=t)
        elif name == MRS:
            self.event("mrs-during-operation", rank=rank, t=t)
        elif name in (RD, WR):
            col_full = addr & ~(1 << 10)
            # remove A10 from the column: bits above 10 move down by one
            col = (col_full & 0x3FF) | ((col_full >> 11) << 10)
            row = self.open_row.get(key)
            is_open = row is not None
            if not is_open:
                self.event("%s-to-closed-bank" % name.lower(), rank=rank, bank=bank, col=col, t=t)
            if name == RD:
                if self.rdphase is not None and ph != self.rdphase:
                    self.event("rd-on-wrong-phase", phase=ph, t=t)
                if is_open:
                    data = int.from_bytes(self.get(rank, bank, row, col), "little")
                else:
                    data = int.from_bytes(bytes([0x5A]) * self.word_bytes, "little")
                self.rd_log.append(dict(cycle=cyc, phase=ph, rank=rank, bank=bank, row=row, col=col,
                                        ap=a10, data=data, open=is_open, t=t))
                if self.passive_data:
                    self.expected_rd.append((cyc + self.read_latency, data, self.rd_log[-1]))
                    self._due_set.add(cyc + self.read_latency)
                else:
                    self._pending_rd.append((cyc + self.read_latency, data))
            else:
                if self.wrphase is not None and ph != self.wrphase:
                    self.event("wr-on-wrong-phase", phase=ph, t=t)
                e = dict(cycle=cyc, phase=ph, rank=rank, bank=bank, row=row, col=col, ap=a10,
                         open=is_open, t=t)
                self.wr_log.append(e)
                self._pending_wr.append((cyc + self.write_latency, e))
            if a10:
                self.open_row.pop(key, None)

    def _commit_write(self, e, wrdata, wrmask):
        e["data"] = wrdata
        e["mask"] = wrmask
        if not e["open"]:
            return
        word = self.get(e["rank"], e["bank"], e["row"], e["col"])
        n = self.word_bytes
        data = wrdata.to_bytes(n, "little")
        changed = 0
        for i in range(n):
            if not (wrmask >> i) & 1:
                word[i] = data[i]
                changed += 1
        e["nbytes"] = changed
        self.written.add((e["rank"], e["bank"], e["row"], e["col"]))
