"""C03 oracle: windowed timing checker over the DFI command log, requirements recomputed from the
module's datasheet table (never from module.timing_settings).  Time unit: DRAM clock, t = cycle*nphases+phase."""
import math
from fractions import Fraction

TOL_NS = Fraction(1, 1000)  # 1 ps


def req_tck(timing, tck_ns):
    """timing: (ck, ns) namedtuple or None -> requirement in DRAM clocks (int) or None."""
    if timing is None:
        return None
    ck, ns = timing
    ck = ck or 0
    ns = Fraction(ns or 0)
    n = 0
    if ns > 0:
        n = math.ceil((ns - TOL_NS) / tck_ns)
    return max(int(ck), int(n))


def datasheet_requirements(module, nphases):
    tck_ns = Fraction(10 ** 9) / Fraction(module.clk_freq) / nphases
    frm = getattr(module.timing_settings, "fine_refresh_mode", None)
    req = {}
    src = {}
    for name in ("tRP", "tRCD", "tWR", "tWTR", "tFAW", "tCCD", "tRRD", "tRAS", "tZQCS"):
        req[name] = req_tck(module.get(name), tck_ns)
        d = module.get(name)
        if d is not None:
            ns_part = req_tck((0, d[1]), tck_ns)
            src[name] = "ck" if (d[0] or 0) > ns_part else "ns"
    req["_src"] = src
    req["tRFC"] = req_tck(module.get("tRFC", frm), tck_ns)
    if module.get("tRAS") is not None:
        trp, tras = module.get("tRP"), module.get("tRAS")
        # tRC = tRAS + tRP (how the library defines it); ck and ns parts added separately (less demanding
        # than adding the two rounded values)
        req["tRC"] = req_tck((trp.ck + tras.ck, trp.ns + tras.ns), tck_ns)
    else:
        req["tRC"] = None
    memtype = module.memtype
    return req, tck_ns, memtype


def write_latency_and_burst(memtype, nphases, cwl):
    """(WL, burst duration) in DRAM clocks, JEDEC per memory type."""
    if memtype == "SDR":
        bl = nphases
        return 0, bl - 1 if bl > 1 else 0   # tWR counts from the last data-in clock
    if memtype in ("DDR", "LPDDR"):
        return 1, 2
    if memtype == "DDR2":
        return cwl, 2
    if memtype in ("DDR3", "DDR4"):
        return cwl, 4
    raise ValueError(memtype)


class TimingChecker:
    def __init__(self, req, memtype, nphases, cwl, nranks, nbanks):
        self.req = req
        self.WL, self.BURST = write_latency_and_burst(memtype, nphases, cwl)
        self.nranks = nranks
        self.nbanks = nbanks
        self.nphases = nphases
        self.viol = []
        self.stats = {}   # rule -> [count, min slack]

    def _rule(self, rule, actual, need, **ctx):
        if need is None:
            return
        slack = actual - need
        s = self.stats.setdefault(rule, [0, None])
        s[0] += 1
        if s[1] is None or slack < s[1]:
            s[1] = slack
        if slack < 0:
            if len(self.viol) < 50:
                tname = rule.split()[0]
                t2 = ctx.get("t")
                t1 = [v_ for k_, v_ in ctx.items() if k_.startswith("t_") and v_ is not None]
                extra = {}
                if t2 is not None and t1:
                    extra = dict(phase_first=t1[0] % self.nphases, phase_second=t2 % self.nphases,
                                 controller_cycles_apart=t2 // self.nphases - t1[0] // self.nphases)
                self.viol.append(dict(kind="timing", rule=rule, actual_tck=actual, required_tck=need, nphases=self.nphases,
                                      requirement_from=(self.req.get("_src") or {}).get(tname), **extra, **ctx))

    def run(self, cmds):
        """cmds: list of (t, cycle, phase, rank, name, bank, addr, a10), any order."""
        req = self.req
        WL, BURST = self.WL, self.BURST
        cmds = sorted(cmds, key=lambda c: (c[0], c[3]))
        last_act = {}      # (rank,bank) -> t
        last_pre = {}      # (rank,bank) -> t (explicit, precharge-all, or internal auto-precharge start)
        last_wr = {}       # (rank,bank) -> t
        pre_kind = {}
        r_acts = {r: [] for r in range(self.nranks)}
        r_last_cas = {}
        r_last_wr = {}
        r_last_ref = {}
        r_last_zqc = {}
        for (t, cyc, ph, rank, name, bank, addr, a10) in cmds:
            key = (rank, bank)
            # tRFC / tZQCS: any command after REF / ZQC
            if rank in r_last_ref:
                # the first command after a REF decides (later ones are later)
                self._rule("tRFC REF->" + ("REF" if name == "REF" else "cmd"), t - r_last_ref[rank], req["tRFC"], t=t,
                           cmd=name, rank=rank, t_ref=r_last_ref[rank])
                del r_last_ref[rank]
            if rank in r_last_zqc:
                self._rule("tZQCS ZQC->cmd", t - r_last_zqc[rank], req["tZQCS"], t=t, cmd=name, rank=rank,
                           t_zqc=r_last_zqc[rank])
                del r_last_zqc[rank]
            if name == "ACT":
                if key in last_pre:
                    self._rule("tRP %s->ACT" % pre_kind[key], t - last_pre[key], req["tRP"], t=t, rank=rank, bank=bank,
                               t_pre=last_pre[key])
                if key in last_act:
                    self._rule("tRC ACT->ACT", t - last_act[key], req["tRC"], t=t, rank=rank, bank=bank, t_act=last_act[key])
                acts = r_acts[rank]
                if acts:
                    self._rule("tRRD ACT->ACT", t - acts[-1], req["tRRD"], t=t, rank=rank, bank=bank, t_prev=acts[-1])
                if len(acts) >= 4 and req["tFAW"] is not None:
                    self._rule("tFAW 5th ACT", t - acts[-4], req["tFAW"], t=t, rank=rank, t_first=acts[-4])
                acts.append(t)
                last_act[key] = t
            elif name in ("RD", "WR"):
                if key in last_act:
                    self._rule("tRCD ACT->" + name, t - last_act[key], req["tRCD"], t=t, rank=rank, bank=bank,
                               t_act=last_act[key])
                if rank in r_last_cas:
                    self._rule("tCCD CAS->CAS", t - r_last_cas[rank], req["tCCD"], t=t, rank=rank, t_prev=r_last_cas[rank])
                if name == "RD" and rank in r_last_wr and req["tWTR"] is not None:
                    self._rule("tWTR WR->RD", t - r_last_wr[rank], WL + BURST + req["tWTR"], t=t, rank=rank,
                               t_wr=r_last_wr[rank])
                r_last_cas[rank] = t
                if name == "WR":
                    r_last_wr[rank] = t
                    last_wr[key] = t
                if a10:
                    # auto-precharge: internal precharge start
                    ta = last_act.get(key)
                    start = t
                    if name == "WR" and req["tWR"] is not None:
                        start = t + WL + BURST + req["tWR"]
                    if ta is not None and req["tRAS"] is not None:
                        start = max(start, ta + req["tRAS"])
                    last_pre[key] = start
                    pre_kind[key] = "auto-PRE(%sA)" % name
                    last_wr.pop(key, None)
            elif name == "PRE":
                banks = range(self.nbanks) if a10 else [bank]
                kind = "PREA" if a10 else "PRE"
                for b in banks:
                    k2 = (rank, b)
                    if k2 in last_act and (k2 not in last_pre or last_pre[k2] < last_act[k2]):
                        self._rule("tRAS ACT->" + kind, t - last_act[k2], req["tRAS"], t=t, rank=rank, bank=b,
                                   t_act=last_act[k2])
                    if k2 in last_wr and (k2 not in last_pre or last_pre[k2] < last_wr[k2]) and req["tWR"] is not None:
                        self._rule("tWR WR->" + kind, t - last_wr[k2], WL + BURST + req["tWR"], t=t, rank=rank, bank=b,
                                   t_wr=last_wr[k2])
                    # a precharge to a bank that is already precharging does not restart its tRP
                    if k2 in last_act and (k2 not in last_pre or last_pre[k2] < last_act[k2]):
                        last_pre[k2] = t
                        pre_kind[k2] = kind
                    elif k2 not in last_act and k2 not in last_pre:
                        pass
            elif name == "REF":
                for b in range(self.nbanks):
                    k2 = (rank, b)
                    if k2 in last_pre:
                        self._rule("tRP %s->REF" % pre_kind[k2], t - last_pre[k2], req["tRP"], t=t, rank=rank, bank=b,
                                   t_pre=last_pre[k2])
                r_last_ref[rank] = t
            elif name == "ZQC":
                for b in range(self.nbanks):
                    k2 = (rank, b)
                    if k2 in last_pre:
                        self._rule("tRP %s->ZQC" % pre_kind[k2], t - last_pre[k2], req["tRP"], t=t, rank=rank, bank=b,
                                   t_pre=last_pre[k2])
                r_last_zqc[rank] = t
        return self.viol, self.stats
