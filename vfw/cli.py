import argparse
import os
import sys


def main():
    ap = argparse.ArgumentParser()
    ap.add_argument("prop")
    ap.add_argument("--tier", default=os.environ.get("VERIF_TIER", "quick"), choices=["quick", "thorough"])
    ap.add_argument("--replay")
    ap.add_argument("--jobs", type=int)
    ap.add_argument("--only")
    a = ap.parse_args()
    seed = int(os.environ.get("VERIF_SEED", "0"))
    from .runner import run_check
    sys.exit(run_check(a.prop.upper(), a.tier, seed, replay=a.replay, jobs=a.jobs, only=a.only))


if __name__ == "__main__":
    main()
