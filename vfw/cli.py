import argparse
import os
import sys


def main():
    ap = argparse.ArgumentParser()
    ap.add_argument("prop")
    ap.add_argument("--tier", default=os.environ.get("VERIF_TIER", "quick"), choices=["quick", "thorough"])
    ap.add_argument("--replay")
    ap.add_argument("--jobs", type=int)
    ap.add_argument("--only")
    a = ap.parse_args()
    raw = os.environ.get("VERIF_SEED", "0").strip() or "0"
    try:
        seed = int(raw)
    except ValueError:
        import zlib
        seed = zlib.crc32(raw.encode())       # any string is a usable seed
    from .runner import run_check
    try:
        rc = run_check(a.prop.upper(), a.tier, seed, replay=a.replay, jobs=a.jobs, only=a.only)
    except Exception:
        # a failure of the machinery itself is never reported as a violation of the property
        import traceback
        traceback.print_exc()
        print("INCONCLUSIVE property=%s harness error (see traceback above); no verdict" % a.prop.upper())
        rc = 2
    sys.exit(rc)


if __name__ == "__main__":
    main()
