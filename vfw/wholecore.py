"""Whole-core engine: real LiteDRAMController + LiteDRAMCrossbar, reference DRAM on DFI, contract
masters on the ports.  One execution produces a Trace that the C01..C06 oracles judge."""
import math
import random
import time
from fractions import Fraction

from . import shim  # noqa: F401
from migen import Signal
from litedram.common import GeomSettings, TimingSettings, burst_lengths
from litedram import modules as litedram_modules
from litedram.phy.model import get_sdram_phy_settings

from .core import CoreDUT, AddressMap, make_phy, run_sim
from .refdram import RefDRAM
from .ports import Op, MemOracle, NativeMaster

DEFAULT_TIMING = dict(tRP=3, tRCD=3, tWR=3, tWTR=2, tREFI=400, tRFC=8, tFAW=None, tCCD=1, tRRD=None,
                      tRC=None, tRAS=None, tZQCS=None)

RATE_OF = {"SDR": "1:1", "DDR": "1:2", "LPDDR": "1:2", "DDR2": "1:2", "DDR3": "1:4", "DDR4": "1:4"}


def module_phy(memtype, nphases, databits, clk_freq):
    """PHY settings for a library module at a given rate: the repository's own simulation-PHY settings function
    when the rate is that function's native one, else the same formulas with the requested phase count."""
    from litedram.phy.model import sdram_module_nphases
    from litedram.common import get_default_cl_cwl, get_sys_latency, get_sys_phase
    if sdram_module_nphases[memtype] == nphases:
        return get_sdram_phy_settings(memtype, databits, clk_freq)
    if memtype == "SDR":
        # half-rate SDR as HalfRateGENSDRPHY declares it (burst of nphases beats, one per phase)
        return make_phy("SDR", nphases, databits, rdphase=0, wrphase=0, cl=2, read_latency=4, write_latency=0)
    if memtype in ("DDR", "LPDDR"):
        raise ValueError("DDR/LPDDR are only used at 1:2")
    tck = 1 / (nphases * clk_freq)
    cl, cwl = get_default_cl_cwl(memtype, tck)
    cls_, cwls = get_sys_latency(nphases, cl), get_sys_latency(nphases, cwl)
    bl = burst_lengths[memtype]
    return make_phy(memtype, nphases, databits, rdphase=get_sys_phase(nphases, cls_, cl),
                    wrphase=get_sys_phase(nphases, cwls, cwl), cl=cl, cwl=cwl, read_latency=cls_ + 6,
                    write_latency=max(cwls - 1, 0), dfi_mult=bl // nphases)


def build_settings(mem):
    """mem: JSON-able description -> (phy, geom, timing, clk_freq, module or None)."""
    if mem["kind"] == "module":
        cls = getattr(litedram_modules, mem["cls"])
        clk_freq = mem["clk_freq"]
        rate = mem.get("rate") or RATE_OF[cls.memtype]
        kw = {}
        if mem.get("speedgrade") is not None:
            kw["speedgrade"] = mem["speedgrade"]
        if mem.get("fine_refresh_mode") is not None:
            kw["fine_refresh_mode"] = mem["fine_refresh_mode"]
        module = cls(clk_freq, rate, **kw)
        nphases = int(rate.split(":")[1])
        databits = mem.get("databits", 16)
        memtype = cls.memtype
        phy = module_phy(memtype, nphases, databits, clk_freq)
        phy.nranks = mem.get("nranks", 1)
        for k in ("rdphase", "wrphase", "read_latency", "write_latency"):
            if mem.get(k) is not None:
                setattr(phy, k, mem[k])
        geom = module.geom_settings
        timing = module.timing_settings
        return phy, geom, timing, clk_freq, module
    else:
        phy = make_phy(mem["memtype"], mem["nphases"], mem.get("databits", 16), mem.get("rdphase", 0),
                       mem.get("wrphase", 0), mem.get("cl", 2), mem.get("cwl"), mem.get("read_latency", 4),
                       mem.get("write_latency", 0), mem.get("nranks", 1), mem.get("dfi_mult"),
                       phase_signals=bool(mem.get("phase_signals")))
        geom = GeomSettings(mem["bankbits"], mem["rowbits"], mem["colbits"])
        t = dict(DEFAULT_TIMING)
        t.update(mem.get("timing", {}))
        timing = TimingSettings(**t)
        return phy, geom, timing, mem.get("clk_freq", 100e6), None


class PortGeometryMismatch(Exception):
    def __init__(self, expected_aw, got_aw):
        Exception.__init__(self, "port address width %d, device needs %d" % (got_aw, expected_aw))
        self.expected_aw, self.got_aw = expected_aw, got_aw


def heavy_gap(rng, scale=1.0):
    x = rng.random()
    if x < 0.55:
        return 0
    if x < 0.80:
        return rng.randint(1, 3)
    if x < 0.95:
        return rng.randint(4, int(15 * scale) + 4)
    return rng.randint(16, int(50 * scale) + 16)


def rand_word(rng, nbytes, port, seq):
    # tag: low 3 bytes of every 4-byte lane carry (port, seq); remaining byte random
    v = rng.getrandbits(8 * nbytes)
    return v


def rand_wemask(rng, nbytes, style):
    full = (1 << nbytes) - 1
    if style == "full":
        return full
    x = rng.random()
    if x < 0.4:
        return full
    if x < 0.5:
        return 0
    if x < 0.6:
        return 1 << rng.randrange(nbytes)
    return rng.getrandbits(nbytes)


class Trace:
    pass


def gen_ops(cfg, amap, rng, word_bytes):
    wl = cfg["workload"]
    cls = wl["class"]
    nports = cfg["nports"]
    nops = wl.get("nops", 120)
    nbanks_total = 1 << amap.bb
    nrows = 1 << amap.rowbits
    ncolw = 1 << amap.ccols
    we_style = wl.get("we_style", "mixed")
    gap_scale = wl.get("gap_scale", 1.0)
    wr_frac = wl.get("wr_frac", 0.5)

    def addr_of(bankfull, row, colw):
        return amap.compose(bankfull >> amap.bankbits, bankfull & ((1 << amap.bankbits) - 1), row, colw)

    hot_rows = [rng.randrange(nrows) for _ in range(wl.get("hot_rows", 3))]
    r2 = random.Random("%s/rows-one-bit-apart" % cfg["seed"])
    if len(hot_rows) >= 2 and r2.random() < 0.6:
        # two of the hot rows differ in a single bit -- mostly the top one (a row compare that loses a bit sees a row hit)
        hot_rows[1] = hot_rows[0] ^ (1 << r2.choice([amap.rowbits - 1, amap.rowbits - 1, r2.randrange(amap.rowbits)]))
    hot_cols = [rng.randrange(ncolw) for _ in range(wl.get("hot_cols", 2))]
    hot_banks = list(range(nbanks_total))
    if wl.get("hot_banks"):
        rng.shuffle(hot_banks)
        hot_banks = hot_banks[:wl["hot_banks"]]
    all_ops = []
    for p in range(nports):
        ops = []
        if cls in ("mixed", "byte-lanes", "direction-flips"):
            for k in range(nops):
                if rng.random() < 0.1:
                    a = rng.randrange(1 << amap.aw)
                else:
                    a = addr_of(rng.choice(hot_banks), rng.choice(hot_rows), rng.choice(hot_cols))
                we = rng.random() < wr_frac
                ops.append(Op(heavy_gap(rng, gap_scale), we, a))
        elif cls == "same-address":
            addrs = [addr_of(rng.choice(hot_banks), rng.choice(hot_rows), rng.choice(hot_cols))
                     for _ in range(wl.get("naddrs", 4))]
            if p > 0:
                addrs = all_ops_addrs
            else:
                all_ops_addrs = addrs
            for k in range(nops):
                ops.append(Op(heavy_gap(rng, gap_scale), rng.random() < wr_frac, rng.choice(addrs)))
        elif cls == "row-conflict":
            b = hot_banks[0] if p % 2 == 0 else rng.choice(hot_banks)
            rows = hot_rows[:2] if len(hot_rows) >= 2 else hot_rows * 2
            for k in range(nops):
                r = rows[k % 2] if rng.random() < 0.8 else rng.choice(rows)
                ops.append(Op(heavy_gap(rng, gap_scale), rng.random() < wr_frac, addr_of(b, r, rng.choice(hot_cols))))
        elif cls == "streams":
            a = rng.randrange(1 << amap.aw)
            k = 0
            while k < nops:
                n = rng.randint(4, 24)
                we = rng.random() < wr_frac
                for j in range(n):
                    ops.append(Op(0 if j else heavy_gap(rng, gap_scale), we, (a + j) % (1 << amap.aw)))
                k += n
                if rng.random() < 0.5:
                    a = (a + n) % (1 << amap.aw)
                elif rng.random() < 0.5:
                    a = rng.randrange(1 << amap.aw)
        elif cls == "bank-sweep":
            # activates to many banks back to back (tRRD / tFAW), rows change every pass
            k = 0
            while k < nops:
                row = rng.choice(hot_rows) if rng.random() < 0.5 else rng.randrange(nrows)
                banks = list(range(nbanks_total))
                if rng.random() < 0.5:
                    rng.shuffle(banks)
                we = rng.random() < wr_frac
                for b in banks:
                    ops.append(Op(0, we if rng.random() < 0.8 else not we, addr_of(b, row, rng.choice(hot_cols))))
                    k += 1
        elif cls == "write-then-conflict":
            # write to a row, then immediately another row of the same bank (tWR before PRE / AP), or read (tWTR)
            k = 0
            while k < nops:
                b = rng.choice(hot_banks)
                r1, r2 = rng.sample(range(nrows), 2) if nrows > 1 else (0, 0)
                n = rng.randint(1, 3)
                for j in range(n):
                    ops.append(Op(heavy_gap(rng, gap_scale) if j == 0 else 0, True, addr_of(b, r1, rng.randrange(ncolw))))
                nxt = rng.random()
                if nxt < 0.5:
                    ops.append(Op(rng.choice([0, 0, 1, 2]), rng.random() < 0.5, addr_of(b, r2, rng.randrange(ncolw))))
                else:
                    ops.append(Op(rng.choice([0, 0, 1, 2]), False, addr_of(rng.choice(hot_banks), r1, rng.randrange(ncolw))))
                k += n + 1
        elif cls == "write-pair-sweep":
            # two row-hit writes with every spacing 0..13, then immediately a read of another (open) bank or another row of
            # the written bank: re-triggers the write-to-read / write-to-precharge timers in every phase relation
            k = 0
            it = 0
            b2 = hot_banks[1 % len(hot_banks)]
            while k < nops:
                b = hot_banks[0]
                r1 = hot_rows[0]
                s = (it + (p * 5)) % 14
                ops.append(Op(24, True, addr_of(b, r1, rng.randrange(ncolw))))
                ops.append(Op(s, True, addr_of(b, r1, rng.randrange(ncolw))))
                if it % 2 == 0:
                    ops.append(Op(0, False, addr_of(b2, hot_rows[0], rng.randrange(ncolw))))
                else:
                    ops.append(Op(0, rng.random() < 0.5, addr_of(b, hot_rows[1 % len(hot_rows)] if it % 4 == 1 else rng.randrange(nrows),
                                                                 rng.randrange(ncolw))))
                ops.append(Op(0, False, addr_of(b2, hot_rows[0], rng.randrange(ncolw))))
                k += 4
                it += 1
        elif cls == "cold-rows":
            # every access opens a new row: ACT shortly before refresh requests
            for k in range(nops):
                ops.append(Op(0 if wl.get("dense") else rng.choice([0, 0, 1, 2, 3, 5, 8, 13]), rng.random() < wr_frac,
                              addr_of(rng.choice(hot_banks), rng.randrange(nrows), rng.randrange(ncolw))))
        elif cls == "idle":
            for k in range(nops):
                ops.append(Op(rng.randint(50, 400), rng.random() < wr_frac,
                              addr_of(rng.choice(hot_banks), rng.choice(hot_rows), rng.choice(hot_cols))))
        elif cls in ("dir-stream-plus-rowmiss-w", "dir-stream-plus-rowmiss-r"):
            # port 0 (victim): opposite direction on its own bank; port 1: row-hit stream in direction D on one bank;
            # ports 2..: direction D with a new row on every access on further banks (an ACTIVATE every few cycles)
            adv_we = cls.endswith("-w")
            nb = nbanks_total
            if p == 0:
                for k in range(wl.get("victim_ops", 30)):
                    ops.append(Op(rng.randint(0, 6), not adv_we, addr_of(nb - 1, hot_rows[0], rng.randrange(ncolw))))
            elif p == 1:
                for k in range(nops):
                    ops.append(Op(0, adv_we, addr_of(0, hot_rows[0], rng.randrange(ncolw))))
            else:
                for k in range(nops):
                    ops.append(Op(0, adv_we, addr_of(1 + (k + p) % max(1, nb - 2), rng.randrange(nrows), rng.randrange(ncolw))))
        elif cls in ("holes-w-vs-reader", "holes-r-vs-writer"):
            # direction adversary with a regular duty cycle: a row-hit stream with single idle cycles (one after every
            # `hole_period` commands, never two in a row), a second adversary with a rare row miss on another bank; the
            # victim (port 0) does the other direction on its own bank
            adv_we = cls.startswith("holes-w")
            nb = nbanks_total
            per = wl.get("hole_period", 1)
            if p == 0:
                for k in range(wl.get("victim_ops", 30)):
                    ops.append(Op(rng.randint(0, 6), not adv_we, addr_of(nb - 1, hot_rows[0], rng.randrange(ncolw))))
            elif p == 1:
                for k in range(nops):
                    ops.append(Op(1 if k % per == 0 else 0, adv_we, addr_of(0, hot_rows[0], rng.randrange(ncolw))))
            else:
                for k in range(nops):
                    ops.append(Op(wl.get("rowmiss_gap", 250), adv_we, addr_of(1 % nb, hot_rows[k % len(hot_rows)] if k % 2 else rng.randrange(nrows),
                                                                             rng.randrange(ncolw))))
        elif cls in ("hammer-same-row", "hammer-alt-rows", "many-ports-one-bank", "yielding", "round-robin-banks",
                     "writes-vs-reader", "reads-vs-writer"):
            victim = (p == 0)
            depth = cfg.get("cs", {}).get("cmd_buffer_depth", 8)
            b0 = hot_banks[0]
            r0, r1 = hot_rows[0], hot_rows[1 % len(hot_rows)]
            if cls in ("hammer-same-row", "hammer-alt-rows", "many-ports-one-bank", "yielding"):
                if victim:
                    for k in range(wl.get("victim_ops", 30)):
                        ops.append(Op(rng.randint(0, 6), rng.random() < wr_frac,
                                      addr_of(b0, rng.choice([r0, r1, rng.randrange(nrows)]), rng.randrange(ncolw))))
                else:
                    k = 0
                    while k < nops:
                        if cls == "yielding":
                            n = rng.randint(1, max(1, depth))
                            for j in range(n):
                                ops.append(Op(wl.get("yield_gap", 80) if j == 0 else 0, rng.random() < wr_frac,
                                              addr_of(b0, r0 if rng.random() < 0.7 else r1, rng.randrange(ncolw))))
                            k += n
                        else:
                            row = r0 if cls != "hammer-alt-rows" else (r0 if k % 2 == 0 else r1)
                            ops.append(Op(0, rng.random() < wr_frac, addr_of(b0, row, rng.randrange(ncolw))))
                            k += 1
            elif cls == "round-robin-banks":
                for k in range(nops if not victim else wl.get("victim_ops", 30)):
                    ops.append(Op(0 if not victim else rng.randint(0, 6), rng.random() < wr_frac,
                                  addr_of((k + p) % nbanks_total, r0 if rng.random() < 0.8 else r1, rng.randrange(ncolw))))
            else:
                # direction adversaries: others stream one direction over all banks, victim does the other
                adv_we = (cls == "writes-vs-reader")
                if victim:
                    for k in range(wl.get("victim_ops", 30)):
                        ops.append(Op(rng.randint(0, 6), not adv_we, addr_of((k * 3 + 1) % nbanks_total, r1, rng.randrange(ncolw))))
                else:
                    for k in range(nops):
                        # the adversary never keeps a bank busy for long: it walks the banks
                        ops.append(Op(0, adv_we, addr_of((k + p) % nbanks_total, r0, rng.randrange(ncolw))))
        elif cls == "explicit":
            for (gap, we, a) in wl["ops"][p]:
                ops.append(Op(gap, bool(we), a))
        else:
            raise ValueError(cls)
        if wl.get("port_roles"):
            role = wl["port_roles"][p % len(wl["port_roles"])]
            if role == "reader":
                for o in ops:
                    o.we = False
            elif role == "writer":
                for o in ops:
                    o.we = True
        for k, o in enumerate(ops):
            if o.we:
                o.data = rng.getrandbits(8 * word_bytes)
                o.wemask = rand_wemask(rng, word_bytes, "mixed" if cls == "byte-lanes" or we_style == "mixed" and rng.random() < 0.3 else "full")
        all_ops.append(ops)
    return all_ops


def drain_bound(phy, timing, cs, nbanks_total, nports):
    P = cs.get("refresh_postponing", 1)
    depth = cs.get("cmd_buffer_depth", 8)
    tz = timing.tZQCS or 0
    tras = timing.tRAS or 0
    trc = timing.tRC or 0
    S = timing.tRP + timing.tRCD + max(tras, trc) + timing.tWR + (timing.tWTR or 0) + (timing.tCCD or 0) \
        + phy.read_latency + phy.write_latency + math.ceil((phy.cwl or phy.cl) / phy.nphases) + 24
    Q = nbanks_total * (depth + 3) + nports
    refresh = P * (timing.tRP + timing.tRFC) + tz + timing.tRP + 8
    D = (Q + 4) * S
    nref = D // max(timing.tREFI, 1) + 2
    return D + nref * refresh + 200


def run_case(cfg, want_fsm=False):
    """Runs one execution.  cfg keys: mem, cs, nports, workload, seed, trefi_override, max_cycles, sweep."""
    rng = random.Random(cfg["seed"])
    phy, geom, timing, clk_freq, module = build_settings(cfg["mem"])
    cs = dict(cfg.get("cs", {}))
    if cfg.get("trefi_override"):
        # only the *interval* is altered (schedule exploration); keep the refresh duty below ~1/3 so that traffic can
        # make progress between refreshes
        timing.tREFI = max(cfg["trefi_override"], 3 * (timing.tRP + timing.tRFC) + 20)
    nports = cfg["nports"]
    dut = CoreDUT(phy, geom, timing, clk_freq, cs, [dict() for _ in range(nports)])
    nphases = phy.nphases
    word_bytes = phy.dfi_databits * nphases // 8
    amap = AddressMap(phy.memtype, nphases, phy.nranks, geom.bankbits, geom.rowbits, geom.colbits, word_bytes,
                      cs.get("bank_byte_alignment", 0))
    if amap.aw != dut.ports[0].address_width:
        # the port's address space is not the size of the device (C06 reports it; the other whole-core checks cannot run)
        raise PortGeometryMismatch(amap.aw, dut.ports[0].address_width)
    rdphase = phy.rdphase if not isinstance(phy.rdphase, Signal) else phy.rdphase.reset.value
    wrphase = phy.wrphase if not isinstance(phy.wrphase, Signal) else phy.wrphase.reset.value
    ref = RefDRAM(dut.dfi, nphases, phy.nranks, geom.bankbits, phy.dfi_databits, phy.read_latency,
                  phy.write_latency, rdphase, wrphase)

    def init_fn(addr):
        rank, bank, row, colw = amap.locate(addr)
        return ref.get(rank, bank, row, colw << amap.align)

    oracle = MemOracle(word_bytes, init=init_fn)
    all_ops = gen_ops(cfg, amap, rng, word_bytes)
    violations = []
    masters = []
    for p in range(nports):
        mode = cfg["workload"].get("master_mode", "fifo")
        if mode == "rand":
            mode = rng.choice(["fifo", "strict"])
        masters.append(NativeMaster(dut.ports[p], all_ops[p], p, oracle, mode, violations))
        if rng.random() < 0.5:
            # payload signals are don't-care while valid is low: half of the masters drive garbage on them
            masters[-1].scramble_rng = random.Random("%s/scramble/%d" % (cfg["seed"], p))

    if cfg["workload"].get("victim_serial"):
        masters[0].mode = "strict"
        masters[0].max_reads_outstanding = 1
    nbanks_total = phy.nranks << geom.bankbits
    D = drain_bound(phy, timing, cs, nbanks_total, nports)
    state = dict(phase="traffic", t_traffic_end=None, t_sweep_start=None, idle_since=None, hang=None)
    sweep = cfg.get("sweep", True)
    stop_at = cfg.get("stop_offering_at")  # cycle after which masters stop offering (bounded-run classes)
    max_cycles = cfg["max_cycles"]

    def progress_count():
        return sum(len(m.accepted) + m.wbeats + m.rbeats for m in masters)

    def done_fn():
        cyc = masters[0].cycle
        if stop_at is not None and cyc >= stop_at:
            for m in masters:
                m.stop = True
        all_idle = all(m.idle() for m in masters)
        # bounded progress: while work is pending some handshake must happen within D cycles
        pc = progress_count()
        if pc != state.get("pc"):
            state["pc"] = pc
            state["last_progress"] = cyc
        pending = any(m.rq or m.wq or m._cmd_valid for m in masters)
        if pending and cyc - state.get("last_progress", 0) > D:
            state["hang"] = dict(phase=state["phase"], since=state.get("last_progress", 0), cycle=cyc, bound=D)
            return True
        if state["phase"] == "traffic":
            if all_idle:
                state["t_traffic_end"] = cyc
                if sweep and not any(m.stop for m in masters):
                    addrs = sorted(oracle.mem.keys())
                    m0 = masters[0]
                    base = len(m0.ops)
                    for k, a in enumerate(addrs):
                        o = Op(0, False, a, tag="sweep")
                        o.seq = base + k
                        m0.ops.append(o)
                    m0.issued_all = False
                    state["phase"] = "sweep"
                    state["nsweep"] = len(addrs)
                    return not addrs
                return True
            return False
        return all_idle

    fsm_seen = {}
    extra_procs = []
    if cfg.get("fsm_coverage"):
        # coverage only (never part of a verdict): public fsm.state of every bank machine, the multiplexer and the refresher
        ctrl = dut.controller
        bms = [sm for (_n, sm) in ctrl._submodules if sm.__class__.__name__ == "BankMachine"]
        fsms = [("bankmachine", bm.fsm) for bm in bms] + [("multiplexer", ctrl.multiplexer.fsm), ("refresher", ctrl.refresher.fsm)]

        def fsm_monitor():
            yield "passive"
            sigs = [f.state for (_n, f) in fsms]
            prev = [None] * len(fsms)
            while True:
                vals = yield sigs
                for i, (nm, f) in enumerate(fsms):
                    fsm_seen.setdefault(nm, {"states": set(), "transitions": set()})
                    fsm_seen[nm]["states"].add(vals[i])
                    if prev[i] is not None and prev[i] != vals[i]:
                        fsm_seen[nm]["transitions"].add((prev[i], vals[i]))
                    prev[i] = vals[i]
                yield
        extra_procs.append(fsm_monitor())
    t0 = time.time()
    cycles, reason = run_sim(dut, [ref.process()] + [m.process() for m in masters] + extra_procs, done_fn,
                             max_cycles, wall_limit=cfg.get("wall_limit", 1500))
    fsm_cov = {}
    if cfg.get("fsm_coverage"):
        for nm, f in [("bankmachine", bms[0].fsm), ("multiplexer", ctrl.multiplexer.fsm), ("refresher", ctrl.refresher.fsm)]:
            dec = {v: (k if isinstance(k, str) else "delay%d" % v) for k, v in f.encoding.items()}   # delayed_enter states are anonymous
            fsm_cov[nm] = dict(states=sorted(str(dec.get(x, x)) for x in fsm_seen.get(nm, {}).get("states", ())),
                               transitions=sorted("%s>%s" % (dec.get(a, a), dec.get(b, b)) for a, b in fsm_seen.get(nm, {}).get("transitions", ())))
    tr = Trace()
    tr.cfg = cfg
    tr.phy, tr.geom, tr.timing, tr.module, tr.clk_freq = phy, geom, timing, module, clk_freq
    tr.cs = cs
    tr.amap = amap
    tr.ref = ref
    tr.masters = masters
    tr.oracle = oracle
    tr.violations = violations
    tr.cycles = cycles
    tr.reason = reason
    tr.state = state
    tr.drain_bound = D
    tr.wall = time.time() - t0
    tr.word_bytes = word_bytes
    tr.nbanks_total = nbanks_total
    tr.rdphase, tr.wrphase = rdphase, wrphase
    tr.dut = dut
    tr.fsm_cov = fsm_cov
    return tr


def trace_sample(tr, ncmd=14, nops=6):
    """a short piece of the actual history of one execution, for the evidence file"""
    cmds = [dict(cycle=c[1], phase=c[2], rank=c[3], cmd=c[4], bank=c[5], addr=hex(c[6])) for c in sorted(tr.ref.cmds)[:ncmd]]
    ports = {}
    for m in tr.masters[:2]:
        ports["port%d" % m.idx] = [o.brief() for o in m.accepted[:nops]]
    return dict(first_dfi_commands=cmds, first_port_commands=ports)


def popcount(x):
    return bin(x).count("1")


# ======================================================================================= C01 oracle
def check_data(tr):
    """C01: read data, exactly-once, conservation, final sweep.  Returns (violations, stats)."""
    v = list(tr.violations)
    ref = tr.ref
    for e in ref.events:
        if e["kind"] in ("rd-overtakes-write-data", "two-read-bursts-collide"):
            v.append(dict(kind="dram-side-" + e["kind"], **{k: e[k] for k in e if k != "kind"}))
    if tr.state["hang"]:
        pend = []
        for m in tr.masters:
            if m.rq or m.wq or m._cmd_valid:
                pend.append(dict(port=m.idx, reads_waiting=len(m.rq), writes_waiting=len(m.wq),
                                 cmd_stuck=bool(m._cmd_valid),
                                 oldest=(m.rq[0][0].brief() if m.rq else (m.wq[0].brief() if m.wq else None))))
        v.append(dict(kind="drain-bound-exceeded", detail=tr.state["hang"], pending=pend))
    complete = tr.reason == "done" and not tr.state["hang"]
    acc_w = sum(1 for m in tr.masters for o in m.accepted if o.we)
    acc_r = sum(1 for m in tr.masters for o in m.accepted if not o.we)
    if complete:
        for m in tr.masters:
            nr = sum(1 for o in m.accepted if not o.we)
            nw = sum(1 for o in m.accepted if o.we)
            if m.rbeats != nr:
                v.append(dict(kind="read-beat-count", port=m.idx, accepted_reads=nr, beats=m.rbeats))
            if m.wbeats != nw:
                v.append(dict(kind="write-beat-count", port=m.idx, accepted_writes=nw, beats=m.wbeats))
        if len(ref.wr_log) != acc_w:
            v.append(dict(kind="conservation-writes", dfi_wr=len(ref.wr_log), accepted=acc_w))
        if len(ref.rd_log) != acc_r:
            v.append(dict(kind="conservation-reads", dfi_rd=len(ref.rd_log), accepted=acc_r))
        waddrs = set(o.addr for m in tr.masters for o in m.accepted if o.we)
        if len(ref.written) != len(waddrs):
            v.append(dict(kind="conservation-locations", dram_locations_written=len(ref.written),
                          port_addresses_written=len(waddrs)))
        en_port = sum(popcount(o.wemask) for m in tr.masters for o in m.accepted if o.we)
        en_dram = sum(e.get("nbytes", 0) for e in ref.wr_log)
        if en_port != en_dram:
            v.append(dict(kind="conservation-bytes", enabled_at_ports=en_port, changed_in_dram=en_dram))
    stats = dict(
        reads_checked=sum(m.checked_reads for m in tr.masters),
        writes=acc_w, reads=acc_r, complete=complete, cycles=tr.cycles,
        sweep=tr.state.get("nsweep", 0),
        act=ref.counts.get("ACT", 0), pre=ref.counts.get("PRE", 0), ref=ref.counts.get("REF", 0),
        underruns=sum(m.underruns for m in tr.masters),
        max_cmd_wait=max(m.max_cmd_wait for m in tr.masters),
        max_data_wait=max(m.max_data_wait for m in tr.masters),
    )
    return v, stats


def cross_port_raw(tr):
    """count reads that observed (per oracle) a write from a different port"""
    n = 0
    for m in tr.masters:
        for o in m.accepted:
            if not o.we:
                h = tr.oracle.hist.get(o.addr)
                if h:
                    last = None
                    for w in h:
                        if w[2] < o.accept:
                            last = w
                    if last is not None and last[0] != m.idx:
                        n += 1
    return n


# ======================================================================================= C02 oracle
PROTOCOL_EVENTS = {
    "act-to-open-bank", "rd-to-closed-bank", "wr-to-closed-bank", "ref-with-open-banks", "zqc-with-open-banks",
    "multiple-cas-in-one-cycle", "rd-on-wrong-phase", "wr-on-wrong-phase", "rd-without-rddata_en",
    "wr-without-wrdata_en", "wrong-strobe", "strobe-without-cas", "cas-to-multiple-ranks",
    "command-with-no-rank-selected", "mrs-during-operation",
}


def check_protocol(tr):
    v = []
    ref = tr.ref
    amap = tr.amap
    for e in ref.events:
        if e["kind"] in PROTOCOL_EVENTS:
            v.append(dict(e))
    # rank selection: non-refresh commands to exactly one rank, REF/ZQC (and their PREA) to all ranks
    if tr.phy.nranks > 1:
        by_slot = {}
        for (t, cyc, ph, rank, name, bank, addr, a10) in ref.cmds:
            by_slot.setdefault((t, name, bank, addr), []).append(rank)
        for (t, name, bank, addr), ranks in by_slot.items():
            if name in ("REF", "ZQC"):
                if len(ranks) != tr.phy.nranks:
                    v.append(dict(kind="refresh-not-to-all-ranks", t=t, cmd=name, ranks=ranks))
            elif name in ("ACT", "RD", "WR"):
                if len(ranks) != 1:
                    v.append(dict(kind="command-to-multiple-ranks", t=t, cmd=name, ranks=ranks))
    # per-bank sequence: DFI CAS stream == accepted port commands of that bank, in order
    per_bank_port = {}
    for m in tr.masters:
        for o in m.accepted:
            rank, bank, row, colw = amap.locate(o.addr)
            per_bank_port.setdefault((rank, bank), []).append((o.accept, m.idx, o, row, colw))
    per_bank_dfi = {}
    for e in ref.rd_log:
        per_bank_dfi.setdefault((e["rank"], e["bank"]), []).append((e["t"], "RD", e))
    for e in ref.wr_log:
        per_bank_dfi.setdefault((e["rank"], e["bank"]), []).append((e["t"], "WR", e))
    matched = 0
    complete = tr.reason == "done" and not tr.state["hang"]
    for key in set(per_bank_port) | set(per_bank_dfi):
        pl = sorted(per_bank_port.get(key, []), key=lambda x: (x[0], x[1]))
        dl = sorted(per_bank_dfi.get(key, []), key=lambda x: x[0])
        for k in range(min(len(pl), len(dl))):
            acc, pidx, o, row, colw = pl[k]
            t, kind, e = dl[k]
            exp_kind = "WR" if o.we else "RD"
            if kind != exp_kind or e["col"] != (colw << amap.align) or e["row"] != row:
                v.append(dict(kind="bank-stream-mismatch", rank=key[0], bank=key[1], index=k,
                              port_cmd=dict(port=pidx, **o.brief()), expected=dict(kind=exp_kind, row=row, col=colw << amap.align),
                              dfi=dict(kind=kind, row=e["row"], col=e["col"], t=t)))
                break
            matched += 1
        if len(dl) > len(pl):
            v.append(dict(kind="dfi-cas-without-port-command", rank=key[0], bank=key[1], dfi=len(dl), port=len(pl)))
        elif complete and len(dl) < len(pl):
            v.append(dict(kind="port-command-never-issued", rank=key[0], bank=key[1], dfi=len(dl), port=len(pl)))
    # auto-precharge flag must not be set when the option is off
    if not tr.cs.get("with_auto_precharge", True):
        for e in ref.rd_log + ref.wr_log:
            if e["ap"]:
                v.append(dict(kind="auto-precharge-while-disabled", t=e["t"]))
                break
    reopened = 0
    seen_act = set()
    for c in ref.cmds:
        if c[4] == "ACT":
            if (c[3], c[5]) in seen_act:
                reopened += 1
            seen_act.add((c[3], c[5]))
    stats = dict(cmds=len(ref.cmds), matched=matched, counts=dict(ref.counts), reopened=reopened,
                 bigrams=len(ref.bigrams), complete=complete)
    return v, stats


# ======================================================================================= C06 oracle
def check_mapping(tr):
    """Attribution by per-bank FIFO order (as C02) against the independent mapping; injectivity."""
    v = []
    ref = tr.ref
    amap = tr.amap
    # global attribution: per port command -> DFI CAS, per (rank,bank) order gives pairs already
    # Here: do not assume the bank: attribute per *port* order (single port, in-order per bank only),
    # so use the C02 pairing but verify every coordinate including rank/bank.
    per_bank_port = {}
    for m in tr.masters:
        for o in m.accepted:
            rank, bank, row, colw = amap.locate(o.addr)
            per_bank_port.setdefault((rank, bank), []).append((o.accept, m.idx, o, row, colw))
    per_bank_dfi = {}
    for e in ref.rd_log:
        per_bank_dfi.setdefault((e["rank"], e["bank"]), []).append((e["t"], e))
    for e in ref.wr_log:
        per_bank_dfi.setdefault((e["rank"], e["bank"]), []).append((e["t"], e))
    seen = {}
    attributed = 0
    for key in set(per_bank_port) | set(per_bank_dfi):
        pl = sorted(per_bank_port.get(key, []), key=lambda x: (x[0], x[1]))
        dl = sorted(per_bank_dfi.get(key, []), key=lambda x: x[0])
        if len(pl) != len(dl):
            v.append(dict(kind="bank-count-mismatch", rank=key[0], bank=key[1], port=len(pl), dfi=len(dl)))
        for k in range(min(len(pl), len(dl))):
            acc, pidx, o, row, colw = pl[k]
            t, e = dl[k]
            loc = (e["rank"], e["bank"], e["row"], e["col"])
            if e["row"] != row or e["col"] != (colw << amap.align):
                v.append(dict(kind="address-map-mismatch", addr=o.addr, expected=(key[0], key[1], row, colw << amap.align), got=loc))
                break
            attributed += 1
            prev = seen.get(loc)
            if prev is not None and prev != o.addr:
                v.append(dict(kind="two-addresses-one-location", a=prev, b=o.addr, loc=loc))
            seen[loc] = o.addr
    # raw bus-level rules
    low_mask = (1 << amap.align) - 1
    for c in ref.cmds:
        t, cyc, ph, rank, name, bank, addr, a10 = c
        if name in ("RD", "WR"):
            if addr & low_mask:
                v.append(dict(kind="column-low-bits-not-zero", t=t, addr=addr))
                break
            if a10 and not tr.cs.get("with_auto_precharge", True):
                v.append(dict(kind="a10-set-without-auto-precharge", t=t, addr=addr))
                break
            if (addr & ~(1 << 10)) >= (1 << (amap.colbits + (1 if amap.colbits > 10 else 0))):
                v.append(dict(kind="column-out-of-range", t=t, addr=addr))
                break
        if name == "ACT" and addr >= (1 << amap.rowbits):
            v.append(dict(kind="row-out-of-range", t=t, addr=addr))
            break
    inv = {}
    for loc, a in seen.items():
        if a in inv and inv[a] != loc:
            v.append(dict(kind="one-address-two-locations", addr=a, a=inv[a], b=loc))
        inv[a] = loc
    stats = dict(attributed=attributed, distinct_locations=len(seen), distinct_addresses=len(inv))
    return v, stats, seen
