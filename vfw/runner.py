"""Case runner: shards cases over worker subprocesses, classifies violations against the committed
known-findings file, writes evidence, prints verdict lines (see DESIGN.md 2.2)."""
import importlib
import json
import os
import subprocess
import sys
import time
from concurrent.futures import ThreadPoolExecutor

ROOT = os.path.dirname(os.path.dirname(os.path.abspath(__file__)))
PY = "/venv/bin/python"
REPO = os.environ.get("VERIF_REPO", "/repo")


def env_for_worker():
    env = dict(os.environ)
    deps = os.path.join(ROOT, ".deps")
    env["PYTHONPATH"] = os.pathsep.join([REPO, ROOT, deps])
    env["PYTHONHASHSEED"] = "0"
    env["LITEDRAM_VERIF"] = "1"
    env.setdefault("PYTHONDONTWRITEBYTECODE", "1")
    return env


def load_prop(pid):
    return importlib.import_module("vfw.props." + pid.lower())


def load_findings():
    path = os.path.join(ROOT, "known_findings.json")
    if not os.path.exists(path):
        return []
    with open(path) as f:
        return json.load(f).get("findings", [])


def classify(pid, case, violation, findings):
    """Returns the id of an *open* finding whose classifier accepts the witness, or None."""
    from . import findings as F
    for fd in findings:
        if fd.get("property") != pid or fd.get("status") != "open":
            continue
        fn = getattr(F, fd["classifier"], None)
        if fn is None:
            continue
        try:
            if fn(violation, case):
                return fd["id"]
        except Exception:
            continue
    return None


def _run_batch(pid, batch, timeout):
    inp = json.dumps(batch)
    t0 = time.time()
    try:
        p = subprocess.run([PY, "-m", "vfw.worker", pid], input=inp, capture_output=True, text=True,
                           timeout=timeout, env=env_for_worker(), cwd=ROOT)
    except subprocess.TimeoutExpired as e:
        out = e.stdout or ""
        if isinstance(out, bytes):
            out = out.decode("utf8", "replace")
        res = _parse(out)
        done = {r["name"] for r in res}
        for c in batch:
            if c["name"] not in done:
                res.append(dict(name=c["name"], verdict="inconclusive", why="wall-clock watchdog (%ds)" % timeout,
                                violations=[], stats={}, nontrivial=False, signature="", wall=time.time() - t0))
        return res
    res = _parse(p.stdout)
    done = {r["name"] for r in res}
    for c in batch:
        if c["name"] not in done:
            res.append(dict(name=c["name"], verdict="inconclusive",
                            why="worker died rc=%s: %s" % (p.returncode, (p.stderr or "")[-800:]),
                            violations=[], stats={}, nontrivial=False, signature="", wall=time.time() - t0))
    return res


def _parse(out):
    res = []
    for line in out.splitlines():
        if line.startswith("RESULT "):
            try:
                res.append(json.loads(line[7:]))
            except Exception:
                pass
    return res


def run_check(pid, tier, seed, replay=None, jobs=None, only=None):
    mod = load_prop(pid)
    t0 = time.time()
    findings = load_findings()
    os.makedirs(os.path.join(ROOT, "evidence"), exist_ok=True)
    os.makedirs(os.path.join(ROOT, "out", "replays"), exist_ok=True)
    if not replay and not only:
        for fn in os.listdir(os.path.join(ROOT, "out", "replays")):
            if fn.startswith(pid + "-"):
                os.unlink(os.path.join(ROOT, "out", "replays", fn))
    if replay:
        with open(replay) as f:
            rp = json.load(f)
        cases = [rp["case"]]
    else:
        cases = mod.cases(tier, seed)
        if only:
            cases = [c for c in cases if only in c["name"]]
    batch_size = getattr(mod, "BATCH", 1)
    timeout = getattr(mod, "BATCH_TIMEOUT", 1800)
    jobs = jobs or int(os.environ.get("VERIF_JOBS", "16"))
    # order by declared cost (largest first) for load balance, then batch
    order = sorted(range(len(cases)), key=lambda i: -cases[i].get("cost", 1))
    batches = []
    if batch_size == 1:
        batches = [[cases[i]] for i in order]
    else:
        nb = max(1, min(len(cases), max(jobs * 2, (len(cases) + batch_size - 1) // batch_size)))
        batches = [[] for _ in range(nb)]
        for k, i in enumerate(order):
            batches[k % nb].append(cases[i])
        batches = [b for b in batches if b]
    results = []
    with ThreadPoolExecutor(max_workers=jobs) as ex:
        for res in ex.map(lambda b: _run_batch(pid, b, timeout), batches):
            results.extend(res)
    by_name = {c["name"]: c for c in cases}
    # ------------------------------------------------------------------ verdicts
    new_violations = []
    known_fired = {}
    n_incon = 0
    for r in results:
        case = by_name.get(r["name"], {})
        if r["verdict"] == "violated":
            unknown = []
            for v in r["violations"]:
                fid = classify(pid, case, v, findings)
                if fid is None:
                    unknown.append(v)
                else:
                    known_fired.setdefault(fid, []).append((r["name"], v))
            if unknown:
                path = os.path.join(ROOT, "out", "replays", "%s-%s.json" % (pid, r["name"].replace("/", "_")))
                with open(path, "w") as f:
                    json.dump(dict(property=pid, case=case, violations=unknown[:20], stats=r.get("stats")), f, indent=1,
                              default=str)
                new_violations.append((r["name"], path, unknown))
                r["_unknown"] = len(unknown)
            else:
                r["verdict"] = "held-known-finding"
        elif r["verdict"] == "inconclusive":
            n_incon += 1
    evaluations = len(results)
    nontrivial_sigs = set()
    for r in results:
        if r.get("nontrivial") and r["verdict"] in ("held", "held-known-finding", "violated"):
            nontrivial_sigs.add(r.get("signature") or r["name"])
    cov = dict(evaluations=evaluations, distinct_nontrivial=len(nontrivial_sigs))
    cov["rule"] = getattr(mod, "RULE", "")
    agg = mod.aggregate(results, cases) if hasattr(mod, "aggregate") else {}
    samples = agg.pop("samples", None) or [dict(case=by_name.get(r["name"]), stats=r.get("stats"))
                                           for r in results[:2]]
    cov["samples"] = samples
    cov.update(agg)
    cov["inconclusive_cases"] = n_incon
    cov["inconclusive_detail"] = [dict(name=r["name"], why=r.get("why")) for r in results
                                  if r["verdict"] == "inconclusive"][:10]
    cov["known_findings_fired"] = {k: len(v) for k, v in known_fired.items()}
    cov["known_finding_witnesses"] = {k: [dict(case=n, witness=w) for n, w in v[:2]] for k, v in known_fired.items()}
    cov["violating_cases"] = [dict(case=n, replay=p, first=u[0]) for n, p, u in new_violations[:10]]
    cov["per_case_wall_max"] = max([r.get("wall", 0) for r in results] or [0])
    cov["slowest_cases"] = [[r["name"], r.get("wall", 0)] for r in sorted(results, key=lambda r: -r.get("wall", 0))[:6]]
    cov["cpu_s_total"] = round(sum(r.get("wall", 0) for r in results), 1)
    ev = dict(property_id=pid, tier=tier, seed=seed, level=getattr(mod, "LEVEL", "exploration"),
              coverage=cov, assumptions=getattr(mod, "ASSUMPTIONS", []), wall_s=round(time.time() - t0, 2),
              violations=len(new_violations))
    if not replay and not only:
        evdir = os.path.join(ROOT, "evidence") if REPO == "/repo" else os.path.join(ROOT, "out", "evidence_scratch")
        os.makedirs(evdir, exist_ok=True)
        with open(os.path.join(evdir, pid + ".json"), "w") as f:
            json.dump(ev, f, indent=1, default=str)
    # ------------------------------------------------------------------ report
    for fid, lst in sorted(known_fired.items()):
        fd = [x for x in findings if x["id"] == fid][0]
        print("KNOWN-FINDING: property=%s %s (%s; fired in %d case(s))" % (pid, fd["what"], fid, len(set(n for n, _ in lst))))
    print("%s tier=%s seed=%d cases=%d nontrivial=%d inconclusive=%d violated=%d wall=%.0fs" % (
        pid, tier, seed, evaluations, len(nontrivial_sigs), n_incon, len(new_violations), time.time() - t0))
    summ = getattr(mod, "summary", None)
    if summ:
        try:
            print(summ(cov))
        except Exception as e:  # summary is informational only
            print("summary failed:", e)
    if new_violations:
        for name, path, unknown in new_violations[:20]:
            print("VIOLATION property=%s replay=%s" % (pid, path))
            print("  case=%s first-witness=%s" % (name, json.dumps(unknown[0], default=str)[:600]))
        return 1
    min_nt = getattr(mod, "MIN_NONTRIVIAL", {}).get(tier, 2)
    if replay or only:
        return 0 if not n_incon else 2
    # a harness exception is never tolerated (the case was not decided and the machinery or the code changed shape); wall-clock
    # watchdog cases are tolerated in small numbers on a loaded machine
    n_exc = sum(1 for r in results if r["verdict"] == "inconclusive" and "harness exception" in str(r.get("why")))
    if len(nontrivial_sigs) < min_nt or n_incon > max(2, evaluations // 4) or n_exc:
        print("INCONCLUSIVE property=%s nontrivial=%d (need %d) inconclusive_cases=%d" % (pid, len(nontrivial_sigs), min_nt, n_incon))
        for r in results:
            if r["verdict"] == "inconclusive":
                print("  ", r["name"], r.get("why"))
        return 2
    return 0
