"""AXI4 helpers: beat address model, an in-order AXI slave stub (memory side for DMA / BIST over AXI) and a random
legal AXI4 master (C09)."""
from collections import deque

from .stub import StallGen

BURST_FIXED, BURST_INCR, BURST_WRAP = 0, 1, 2


def beat_addresses(addr, length, size, burst):
    """Independent AXI4 beat address generation (A3.4.1): addr byte address, length = AxLEN (beats-1), size = AxSIZE."""
    nbytes = 1 << size
    n = length + 1
    out = []
    aligned = (addr // nbytes) * nbytes
    if burst == BURST_FIXED:
        return [addr] * n
    if burst == BURST_INCR:
        out.append(addr)
        for i in range(1, n):
            out.append(aligned + i * nbytes)
        return out
    # WRAP: start address aligned to size, length 2/4/8/16
    total = nbytes * n
    lower = (addr // total) * total
    upper = lower + total
    a = addr
    for i in range(n):
        out.append(a)
        a = a + nbytes
        if a >= upper:
            a = lower
    return out


class AXISlaveStub:
    """In-order AXI4 slave with a word store; waits for rready/bready like any AXI slave; random channel stalls."""

    def __init__(self, axi, store, rng, ready_prob=0.7, extra_lat=(0, 8), valid_prob=0.8):
        self.axi = axi
        self.store = store
        self.rng = rng
        self.ready_prob = ready_prob
        self.valid_prob = valid_prob
        self.extra_lat = extra_lat
        self.shift = (store.word_bytes).bit_length() - 1
        self.events = []
        self.notes = {}
        self.wseq = []          # (word addr, data, strb) in the order written
        self.rseq = []
        self.nw = 0
        self.max_out_seen = 0
        self.ar_q = deque()
        self.aw_q = deque()
        self.w_q = deque()
        self.b_q = deque()
        self.cycle = 0

    def outstanding(self):
        return len(self.ar_q) + len(self.aw_q) + len(self.w_q) + len(self.b_q)

    def writes_done(self):
        return self.nw

    def write_sequence(self):
        return list(self.wseq)

    def processes(self):
        return [self._rd(), self._wr()]

    def _rd(self):
        yield "passive"
        axi = self.axi
        ar, r = axi.ar, axi.r
        st_ar = StallGen(self.rng, self.ready_prob)
        st_r = StallGen(self.rng, self.valid_prob)
        arready = 0
        rvalid = 0
        cur = None      # [addresses], idx, id, due
        cyc = 0
        yield [ar.ready.eq(0), r.valid.eq(0)]
        yield
        while True:
            arv, araddr, arlen, arsize, arburst, arid, rready = yield [ar.valid, ar.addr, ar.len, ar.size, ar.burst, ar.id, r.ready]
            cyc += 1
            if arv and arready:
                self.ar_q.append(dict(addrs=beat_addresses(araddr, arlen, arsize, arburst), id=arid,
                                      due=cyc + 2 + self.rng.randint(*self.extra_lat), i=0))
                self.max_out_seen = max(self.max_out_seen, len(self.ar_q))
            if rvalid and rready:
                rvalid = 0
                e = self.ar_q[0]
                e["i"] += 1
                if e["i"] >= len(e["addrs"]):
                    self.ar_q.popleft()
            stmts = []
            if not rvalid and self.ar_q and cyc >= self.ar_q[0]["due"] and st_r.next():
                e = self.ar_q[0]
                a = e["addrs"][e["i"]]
                data = self.store.read(a >> self.shift)
                self.rseq.append((a >> self.shift, data))
                stmts += [r.valid.eq(1), r.data.eq(data), r.id.eq(e["id"]), r.last.eq(int(e["i"] == len(e["addrs"]) - 1)), r.resp.eq(0)]
                rvalid = 1
            elif not rvalid:
                stmts += [r.valid.eq(0), r.data.eq(self.rng.getrandbits(len(r.data)))]      # data without valid is garbage
            n = st_ar.next() if len(self.ar_q) < 16 else 0
            if n != arready:
                stmts.append(ar.ready.eq(n))
                arready = n
            if stmts:
                yield stmts
            yield

    def _wr(self):
        yield "passive"
        axi = self.axi
        aw, w, b = axi.aw, axi.w, axi.b
        st_aw = StallGen(self.rng, self.ready_prob)
        st_w = StallGen(self.rng, self.ready_prob)
        awready = wready = bvalid = 0
        cyc = 0
        yield [aw.ready.eq(0), w.ready.eq(0), b.valid.eq(0)]
        yield
        while True:
            vals = yield [aw.valid, aw.addr, aw.len, aw.size, aw.burst, aw.id, w.valid, w.data, w.strb, w.last, b.ready]
            awv, awaddr, awlen, awsize, awburst, awid, wv, wd, ws, wl, bready = vals
            cyc += 1
            if awv and awready:
                self.aw_q.append(dict(addrs=beat_addresses(awaddr, awlen, awsize, awburst), id=awid, i=0))
                self.max_out_seen = max(self.max_out_seen, len(self.aw_q))
            if wv and wready:
                self.w_q.append((wd, ws, wl))
            # pair data beats with address beats in order
            while self.w_q and self.aw_q:
                e = self.aw_q[0]
                d, s, l = self.w_q.popleft()
                a = e["addrs"][e["i"]]
                self.store.write(a >> self.shift, d, s)
                self.wseq.append((a >> self.shift, d, s))
                self.nw += 1
                e["i"] += 1
                last_expected = e["i"] >= len(e["addrs"])
                if bool(l) != last_expected:
                    # informational only: the properties served by this stub do not speak about WLAST
                    self.notes["wlast_mismatch"] = self.notes.get("wlast_mismatch", 0) + 1
                if last_expected:
                    self.aw_q.popleft()
                    self.b_q.append(dict(id=e["id"], due=cyc + 1 + self.rng.randint(*self.extra_lat)))
            if bvalid and bready:
                bvalid = 0
                self.b_q.popleft()
            stmts = []
            if not bvalid and self.b_q and cyc >= self.b_q[0]["due"]:
                stmts += [b.valid.eq(1), b.id.eq(self.b_q[0]["id"]), b.resp.eq(0)]
                bvalid = 1
            elif not bvalid:
                stmts.append(b.valid.eq(0))
            n = st_aw.next() if len(self.aw_q) < 16 else 0
            if n != awready:
                stmts.append(aw.ready.eq(n))
                awready = n
            n = st_w.next() if len(self.w_q) < 16 else 0
            if n != wready:
                stmts.append(w.ready.eq(n))
                wready = n
            if stmts:
                yield stmts
            yield


class AXIMaster:
    """Random legal AXI4 master: five independent channel processes sharing one plan.

    writes: list of dict(id, addr, len, size, burst, beats=[(data, strb)], gap_aw, gaps_w)
    reads : list of dict(id, addr, len, size, burst, gap, after_b=index of the write whose B must have been seen or None)
    Records handshake cycles: aw_t, w_t (per beat), b (cycle, id), ar_t, r beats (cycle, id, data, last)."""

    def __init__(self, axi, writes, reads, rng, ready_b=0.7, ready_r=0.7, long_stall=0.0, serial_writes=False):
        # serial_writes: one write burst at a time (AW and W of burst k only after the B of burst k-1, W only after its AW)
        self.serial_writes = serial_writes
        self.scramble = False      # drive random payloads on AW / W / AR while their valid is low (don't-care values)
        self.axi = axi
        self.writes = writes
        self.reads = reads
        self.rng = rng
        self.b_log = []
        self.r_log = []
        self.aw_t = []
        self.w_offer = []
        self.w_t = []
        self.ar_t = []
        self.cycle = 0
        self.b_seen = 0
        self.st_b = StallGen(rng, ready_b, long_stall)
        self.st_r = StallGen(rng, ready_r, long_stall)
        self.done_aw = self.done_w = self.done_ar = False
        self.stalls = dict(aw=0, w=0, ar=0, b=0, r=0)
        self.protocol = []

    def processes(self):
        return [self._clock(), self._aw(), self._w(), self._b(), self._ar(), self._r()]

    def all_issued(self):
        return self.done_aw and self.done_w and self.done_ar

    def _clock(self):
        yield "passive"
        while True:
            yield
            self.cycle += 1

    def _chan(self, ep, items, fields_of, gap_of, log, done_attr, stall_key, gate=None, offers=None):
        yield "passive"
        i = 0
        valid = 0
        gap = None
        yield ep.valid.eq(0)
        yield
        while True:
            ready = yield ep.ready
            if valid and ready:
                log.append(self.cycle)
                valid = 0
                i += 1
                gap = None
            elif valid:
                self.stalls[stall_key] += 1
            if i >= len(items):
                setattr(self, done_attr, True)
            stm = []
            if not valid and i < len(items):
                if gap is None:
                    gap = gap_of(items[i])
                if gap > 0:
                    gap -= 1
                elif gate is None or gate(items[i]):
                    stm.append(ep.valid.eq(1))
                    for k, v in fields_of(items[i]).items():
                        stm.append(getattr(ep, k).eq(v))
                    valid = 1
                    if offers is not None:
                        offers.append(self.cycle + 1)
            if not valid:
                stm.append(ep.valid.eq(0))
                if self.scramble and items:
                    for k in fields_of(items[0]):
                        sig = getattr(ep, k)
                        stm.append(sig.eq(self.rng.getrandbits(len(sig))))
            if stm:
                yield stm
            yield

    def _aw(self):
        f = lambda w: dict(addr=w["addr"], len=w["len"], size=w["size"], burst=w["burst"], id=w["id"])
        for i, w in enumerate(self.writes):
            w["_idx"] = i
        gate = (lambda w: self.b_seen >= w["_idx"]) if self.serial_writes else None
        return self._chan(self.axi.aw, self.writes, f, lambda w: w["gap_aw"], self.aw_t, "done_aw", "aw", gate)

    def _w(self):
        beats = []
        for wi, w in enumerate(self.writes):
            for bi, (d, s) in enumerate(w["beats"]):
                beats.append(dict(data=d, strb=s, last=int(bi == len(w["beats"]) - 1), gap=w["gaps_w"][bi], wi=wi))
        f = lambda b: dict(data=b["data"], strb=b["strb"], last=b["last"])
        gate = (lambda b: self.b_seen >= b["wi"] and len(self.aw_t) > b["wi"]) if self.serial_writes else None
        return self._chan(self.axi.w, beats, f, lambda b: b["gap"], self.w_t, "done_w", "w", gate, offers=self.w_offer)

    def _ar(self):
        f = lambda r: dict(addr=r["addr"], len=r["len"], size=r["size"], burst=r["burst"], id=r["id"])
        gate = lambda r: r.get("after_b") is None or self.b_seen > r["after_b"]
        return self._chan(self.axi.ar, self.reads, f, lambda r: r["gap"], self.ar_t, "done_ar", "ar", gate)

    def _b(self):
        yield "passive"
        b = self.axi.b
        ready = 0
        yield b.ready.eq(0)
        yield
        first = None
        while True:
            v, bid, resp = yield [b.valid, b.id, b.resp]
            if v and first is None:
                first = self.cycle
            if v and not ready:
                self.stalls["b"] += 1
            if v and ready:
                self.b_log.append((self.cycle, bid, resp, first))
                self.b_seen += 1
                first = None
            n = self.st_b.next()
            if n != ready:
                yield b.ready.eq(n)
                ready = n
            yield

    def _r(self):
        yield "passive"
        r = self.axi.r
        ready = 0
        yield r.ready.eq(0)
        yield
        prev = None
        while True:
            v, rid, data, last, resp = yield [r.valid, r.id, r.data, r.last, r.resp]
            if v and not ready:
                self.stalls["r"] += 1
                cur = (rid, data, last)
                if prev is not None and prev != cur:
                    self.protocol.append(dict(kind="r-payload-changed-while-stalled", cycle=self.cycle))
                prev = cur
            else:
                prev = None
            if v and ready:
                self.r_log.append((self.cycle, rid, data, last, resp))
            n = self.st_r.next()
            if n != ready:
                yield r.ready.eq(n)
                ready = n
            yield
