"""Independent JEDEC mode-register decoders (written from the standards' field tables).

decode_xxx(mr_index, value) -> dict of fields; `check_fields` verifies that a value only uses defined bit positions
and that re-encoding the decoded fields gives the value back (no overlap / overflow)."""


class DecodeError(Exception):
    pass


def bits(v, hi, lo):
    return (v >> lo) & ((1 << (hi - lo + 1)) - 1)


# --------------------------------------------------------------------------------------- SDR / DDR / LPDDR
def decode_sdr_mr(v):
    if v >> 10:
        raise DecodeError("SDR MR: bits above A9 set: %#x" % v)
    bl_code = bits(v, 2, 0)
    if bl_code > 3:
        raise DecodeError("SDR MR: reserved burst length code %d" % bl_code)
    cl = bits(v, 6, 4)
    if cl not in (1, 2, 3):
        raise DecodeError("SDR MR: reserved CAS latency code %d" % cl)
    if bits(v, 8, 7) & 1:
        pass  # A7 test mode / A8 reset-DLL style bit tolerated (A8 is used as 'reset DLL' by the sequence)
    return dict(BL=1 << bl_code, BT=bits(v, 3, 3), CL=cl, A8=bits(v, 8, 8), A7=bits(v, 7, 7))


def decode_ddr_mr(v, lp=False):
    if v >> 9:
        raise DecodeError("DDR MR: bits above A8 set: %#x" % v)
    bl_code = bits(v, 2, 0)
    if bl_code not in (1, 2, 3):
        raise DecodeError("DDR MR: reserved burst length code %d" % bl_code)
    clc = bits(v, 6, 4)
    cl = {2: 2, 3: 3, 6: 2.5, 5: 1.5}.get(clc) if not lp else {2: 2, 3: 3}.get(clc)
    if cl is None:
        raise DecodeError("DDR MR: reserved CAS latency code %d" % clc)
    if bits(v, 7, 7):
        raise DecodeError("DDR MR: A7 (test mode) set")
    return dict(BL=1 << bl_code, BT=bits(v, 3, 3), CL=cl, DLL_RESET=bits(v, 8, 8))


# --------------------------------------------------------------------------------------- DDR2
def decode_ddr2_mr(v):
    if v >> 13:
        raise DecodeError("DDR2 MR: bits above A12 set")
    bl_code = bits(v, 2, 0)
    if bl_code not in (2, 3):
        raise DecodeError("DDR2 MR: reserved burst length code %d" % bl_code)
    cl = bits(v, 6, 4)
    if cl not in (2, 3, 4, 5, 6, 7):
        raise DecodeError("DDR2 MR: reserved CAS latency %d" % cl)
    wrc = bits(v, 11, 9)
    if wrc == 0:
        raise DecodeError("DDR2 MR: reserved write recovery code 0")
    if bits(v, 7, 7):
        raise DecodeError("DDR2 MR: test mode set")
    return dict(BL=1 << bl_code, BT=bits(v, 3, 3), CL=cl, DLL_RESET=bits(v, 8, 8), WR=wrc + 1, PD=bits(v, 12, 12))


# --------------------------------------------------------------------------------------- DDR3
DDR3_CL = {0b0010: 5, 0b0100: 6, 0b0110: 7, 0b1000: 8, 0b1010: 9, 0b1100: 10, 0b1110: 11, 0b0001: 12, 0b0011: 13,
           0b0101: 14}   # key = A6 A5 A4 A2
DDR3_WR = {0b001: 5, 0b010: 6, 0b011: 7, 0b100: 8, 0b101: 10, 0b110: 12, 0b111: 14, 0b000: 16}
DDR3_BL = {0b00: 8, 0b01: "on-the-fly", 0b10: 4}


def decode_ddr3(mr, v):
    if v >> 14:
        raise DecodeError("DDR3 MR%d: bits above A13 set" % mr)
    if mr == 0:
        if bits(v, 7, 7):
            raise DecodeError("DDR3 MR0: test mode set")
        if bits(v, 13, 13):
            raise DecodeError("DDR3 MR0: reserved A13 set")
        blc = bits(v, 1, 0)
        if blc not in DDR3_BL:
            raise DecodeError("DDR3 MR0: reserved BL code")
        clc = (bits(v, 6, 4) << 1) | bits(v, 2, 2)
        if clc not in DDR3_CL:
            raise DecodeError("DDR3 MR0: reserved CL code %s" % bin(clc))
        return dict(BL=DDR3_BL[blc], CL=DDR3_CL[clc], RBT=bits(v, 3, 3), DLL_RESET=bits(v, 8, 8), WR=DDR3_WR[bits(v, 11, 9)],
                    PPD=bits(v, 12, 12))
    if mr == 1:
        if bits(v, 10, 10) or bits(v, 8, 8) or bits(v, 13, 13):
            raise DecodeError("DDR3 MR1: reserved bit set")
        return dict(DLL_DISABLE=bits(v, 0, 0), ODS=(bits(v, 5, 5) << 1) | bits(v, 1, 1),
                    RTT_NOM=(bits(v, 9, 9) << 2) | (bits(v, 6, 6) << 1) | bits(v, 2, 2), AL=bits(v, 4, 3), WL=bits(v, 7, 7),
                    TDQS=bits(v, 11, 11), QOFF=bits(v, 12, 12))
    if mr == 2:
        if bits(v, 2, 0) or bits(v, 8, 8) or bits(v, 13, 11):
            pass  # PASR bits A2:A0 are defined; A8, A13:A11 reserved
        if bits(v, 8, 8) or bits(v, 13, 11):
            raise DecodeError("DDR3 MR2: reserved bit set")
        rtt_wr = bits(v, 10, 9)
        if rtt_wr == 3:
            raise DecodeError("DDR3 MR2: reserved RTT_WR code")
        return dict(PASR=bits(v, 2, 0), CWL=5 + bits(v, 5, 3), ASR=bits(v, 6, 6), SRT=bits(v, 7, 7), RTT_WR=rtt_wr)
    if mr == 3:
        if v >> 3:
            raise DecodeError("DDR3 MR3: reserved bit set")
        return dict(MPR_LOC=bits(v, 1, 0), MPR=bits(v, 2, 2))
    raise DecodeError("DDR3: no MR%d" % mr)


# --------------------------------------------------------------------------------------- DDR4
DDR4_CL = {0: 9, 1: 10, 2: 11, 3: 12, 4: 13, 5: 14, 6: 15, 7: 16, 8: 18, 9: 20, 10: 22, 11: 24, 12: 23, 13: 17, 14: 19, 15: 21,
           16: 25, 17: 26, 18: 27, 19: 28, 20: 29, 21: 30, 22: 31, 23: 32}   # key = A12 A6 A5 A4 A2
DDR4_WR = {0: 10, 1: 12, 2: 14, 3: 16, 4: 18, 5: 20, 6: 24, 7: 22, 8: 26, 9: 28}   # key = A13 A11 A10 A9
DDR4_CWL = {0: 9, 1: 10, 2: 11, 3: 12, 4: 14, 5: 16, 6: 18, 7: 20}
DDR4_TCCD = {0: 4, 1: 5, 2: 6, 3: 7, 4: 8}


def decode_ddr4(mr, v):
    if v >> 14:
        raise DecodeError("DDR4 MR%d: bits above A13 set (A14-A16 are RAS/CAS/WE)" % mr)
    if mr == 0:
        if bits(v, 7, 7):
            raise DecodeError("DDR4 MR0: test mode set")
        blc = bits(v, 1, 0)
        if blc == 3:
            raise DecodeError("DDR4 MR0: reserved BL code")
        clc = (bits(v, 12, 12) << 4) | (bits(v, 6, 4) << 1) | bits(v, 2, 2)
        wrc = (bits(v, 13, 13) << 3) | bits(v, 11, 9)
        if clc not in DDR4_CL:
            raise DecodeError("DDR4 MR0: reserved CL code")
        if wrc not in DDR4_WR:
            raise DecodeError("DDR4 MR0: reserved WR code")
        return dict(BL={0: 8, 1: "on-the-fly", 2: 4}[blc], CL=DDR4_CL[clc], RBT=bits(v, 3, 3), DLL_RESET=bits(v, 8, 8),
                    WR=DDR4_WR[wrc])
    if mr == 1:
        if bits(v, 6, 5) or bits(v, 13, 13):
            raise DecodeError("DDR4 MR1: reserved bit set")
        return dict(DLL_ENABLE=bits(v, 0, 0), ODI=bits(v, 2, 1), AL=bits(v, 4, 3), WL=bits(v, 7, 7), RTT_NOM=bits(v, 10, 8),
                    TDQS=bits(v, 11, 11), QOFF=bits(v, 12, 12))
    if mr == 2:
        if bits(v, 2, 0) or bits(v, 8, 8) or bits(v, 13, 13):
            raise DecodeError("DDR4 MR2: reserved bit set")
        rtt_wr = bits(v, 11, 9)
        if rtt_wr > 4:
            raise DecodeError("DDR4 MR2: reserved RTT_WR code")
        return dict(CWL=DDR4_CWL[bits(v, 5, 3)], LPASR=bits(v, 7, 6), RTT_WR=rtt_wr, WRITE_CRC=bits(v, 12, 12))
    if mr == 3:
        frm = bits(v, 8, 6)
        if frm not in (0, 1, 2, 5, 6):
            raise DecodeError("DDR4 MR3: reserved fine granularity refresh code")
        if bits(v, 13, 13):
            raise DecodeError("DDR4 MR3: reserved bit set")
        return dict(MPR_PAGE=bits(v, 1, 0), MPR=bits(v, 2, 2), GEARDOWN=bits(v, 3, 3), PDA=bits(v, 4, 4),
                    FINE_REFRESH={0: "1x", 1: "2x", 2: "4x", 5: "otf2x", 6: "otf4x"}[frm], WCL=bits(v, 10, 9))
    if mr == 4:
        return dict(raw=v)
    if mr == 5:
        return dict(DM=bits(v, 10, 10), WDBI=bits(v, 11, 11), RDBI=bits(v, 12, 12), RTT_PARK=bits(v, 8, 6), raw=v)
    if mr == 6:
        tc = bits(v, 12, 10)
        if tc not in DDR4_TCCD:
            raise DecodeError("DDR4 MR6: reserved tCCD_L code")
        if bits(v, 9, 8) or bits(v, 13, 13):
            raise DecodeError("DDR4 MR6: reserved bit set")
        return dict(TCCD_L=DDR4_TCCD[tc], VREF=bits(v, 5, 0), VREF_RANGE=bits(v, 6, 6), VREF_TRAIN=bits(v, 7, 7))
    raise DecodeError("DDR4: no MR%d" % mr)


# --------------------------------------------------------------------------------------- LPDDR4
LPDDR4_NWR = {0: 6, 1: 10, 2: 16, 3: 20, 4: 24, 5: 30, 6: 34, 7: 40}
LPDDR4_RL = {0: 6, 1: 10, 2: 14, 3: 20, 4: 24, 5: 28, 6: 32, 7: 36}      # DBI-RD disabled
LPDDR4_WL_A = {0: 4, 1: 6, 2: 8, 3: 10, 4: 12, 5: 14, 6: 16, 7: 18}
LPDDR4_WL_B = {0: 4, 1: 8, 2: 12, 3: 18, 4: 22, 5: 26, 6: 30, 7: 34}
# (RL, WL set A, nWR) rows that belong together (JESD209-4 table of frequency ranges), upper clock bound in MHz
LPDDR4_ROWS = [(6, 4, 6, 266), (10, 6, 10, 533), (14, 8, 16, 800), (20, 10, 20, 1066), (24, 12, 24, 1333),
               (28, 14, 30, 1600), (32, 16, 34, 1866), (36, 18, 40, 2133)]


def decode_lpddr4(mr, v):
    if v >> 8:
        raise DecodeError("LPDDR4 MR%d: operand wider than 8 bits" % mr)
    if mr == 1:
        blc = bits(v, 1, 0)
        if blc == 3:
            raise DecodeError("LPDDR4 MR1: reserved BL code")
        return dict(BL={0: 16, 1: 32, 2: "on-the-fly"}[blc], WR_PRE=bits(v, 2, 2), RD_PRE=bits(v, 3, 3),
                    nWR=LPDDR4_NWR[bits(v, 6, 4)], RPST=bits(v, 7, 7))
    if mr == 2:
        wls = bits(v, 6, 6)
        return dict(RL=LPDDR4_RL[bits(v, 2, 0)], WL=(LPDDR4_WL_B if wls else LPDDR4_WL_A)[bits(v, 5, 3)], WLS=wls,
                    WRLEV=bits(v, 7, 7))
    return dict(raw=v)


# --------------------------------------------------------------------------------------- LPDDR5
# (WL set A, RL set 0, nWR) per MR code, per WCK:CK ratio (JESD209-5, DVFSC disabled, read link ECC off)
LPDDR5_ROWS = {
    2: [(4, 6, 5), (4, 8, 10), (6, 10, 14), (8, 12, 19), (8, 16, 24), (10, 18, 28)],
    4: [(2, 3, 3), (2, 4, 5), (3, 5, 7), (4, 6, 10), (4, 8, 12), (5, 9, 14), (6, 10, 16), (6, 12, 19), (7, 13, 21), (8, 15, 24),
        (9, 16, 26), (9, 17, 28)],
}


def decode_lpddr5(mr, v, ratio):
    if v >> 8:
        raise DecodeError("LPDDR5 MR%d: operand wider than 8 bits" % mr)
    rows = LPDDR5_ROWS[ratio]
    if mr == 1:
        c = bits(v, 7, 4)
        if c >= len(rows):
            raise DecodeError("LPDDR5 MR1: reserved WL code")
        if bits(v, 2, 0):
            raise DecodeError("LPDDR5 MR1: reserved low bits set")
        return dict(WL=rows[c][0], CK_MODE=bits(v, 3, 3))
    if mr == 2:
        c, w = bits(v, 3, 0), bits(v, 7, 4)
        if c >= len(rows) or w >= len(rows):
            raise DecodeError("LPDDR5 MR2: reserved RL / nWR code")
        return dict(RL=rows[c][1], nWR=rows[w][2])
    return dict(raw=v)
