"""Harness-side shims for the pinned environment (never installed into /venv).

(a) Migen 0.9.2's name tracer does not understand CPython >= 3.11 bytecode, so every unnamed
    CSRStorage()/CSRStatus() raises "Cannot extract CSR name".  Replace get_var_name by a
    dis-based one that finds the STORE_* that follows the CALL in progress.
(b) The pinned LiteDRAM uses CSR.wr_stb / rd_stb which the installed LiteX lacks; alias them to
    the write/read strobes (re / we) when absent.
Only names (a) and the strobe alias (b) are affected; no behaviour of the repository changes.
"""
import dis
import sys

_installed = False


def _get_var_name(frame):
    code = frame.f_code
    lasti = frame.f_lasti
    try:
        instrs = _cache[code]
    except KeyError:
        instrs = list(dis.get_instructions(code))
        _cache[code] = instrs
    # find the instruction at lasti (the CALL in progress)
    idx = None
    for i, ins in enumerate(instrs):
        if ins.offset == lasti:
            idx = i
            break
        if ins.offset > lasti:
            idx = i - 1
            break
    if idx is None:
        return None
    if not instrs[idx].opname.startswith("CALL"):
        return None
    i = idx + 1
    while i < len(instrs):
        op = instrs[i].opname
        if op in ("STORE_NAME", "STORE_ATTR", "STORE_FAST", "STORE_DEREF", "STORE_GLOBAL"):
            return instrs[i].argval
        if op in ("CACHE", "LOAD_GLOBAL", "LOAD_ATTR", "LOAD_FAST", "LOAD_DEREF", "COPY",
                  "BUILD_LIST", "LOAD_FAST_CHECK", "LOAD_FAST_AND_CLEAR", "PUSH_NULL",
                  "LOAD_NAME", "SWAP", "NOP", "PRECALL", "RESUME", "DUP_TOP"):
            i += 1
            continue
        return None
    return None


_cache = {}


def install():
    global _installed
    if _installed:
        return
    _installed = True
    sys.setrecursionlimit(max(sys.getrecursionlimit(), 20000))
    import migen.fhdl.tracer as tracer
    tracer.get_var_name = _get_var_name
    from litex.soc.interconnect import csr
    if not hasattr(csr.CSR, "wr_stb"):
        csr.CSR.wr_stb = property(lambda self: self.re)
    if not hasattr(csr.CSR, "rd_stb"):
        csr.CSR.rd_stb = property(lambda self: self.we)
    for cls in (csr.CSRStorage, csr.CSRStatus):
        if not hasattr(cls, "wr_stb") and hasattr(cls, "re"):
            pass


install()
