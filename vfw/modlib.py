"""Enumeration of the module library (classes, speedgrades, usable rates and clocks)."""
import inspect
import random

from . import shim  # noqa: F401
from litedram import modules as M

RATES = {"SDR": ["1:1", "1:2"], "DDR": ["1:2"], "LPDDR": ["1:2"], "DDR2": ["1:2"], "DDR3": ["1:4", "1:2"], "DDR4": ["1:4"]}
# typical controller clocks when no speedgrade names a data rate (MHz of the *DRAM* clock)
TYPICAL_DRAM_MHZ = {"SDR": [50, 100, 133], "DDR": [100, 133, 166], "LPDDR": [100, 133, 166], "DDR2": [200, 266, 333],
                    "DDR3": [400, 533], "DDR4": [666, 800]}


def module_classes(memtypes=None):
    out = []
    for n, c in inspect.getmembers(M, inspect.isclass):
        if issubclass(c, M.SDRAMModule) and hasattr(c, "memtype") and hasattr(c, "nbanks") and not n.startswith("_"):
            if memtypes is None or c.memtype in memtypes:
                out.append(c)
    return sorted(out, key=lambda c: (c.memtype, c.__name__))


def speedgrades(cls):
    sg = [k for k in getattr(cls, "speedgrade_timings", {}).keys() if k != "default"]
    return [None] + sg


def dram_clocks_mhz(cls, speedgrade):
    """candidate DRAM clocks: rated, about half, and a low one"""
    mt = cls.memtype
    if speedgrade is not None and str(speedgrade).isdigit():
        rated = int(speedgrade) / 2
    else:
        rated = TYPICAL_DRAM_MHZ[mt][-1]
    low = {"SDR": 50, "DDR": 100, "LPDDR": 83, "DDR2": 200, "DDR3": 320, "DDR4": 625}[mt]
    cands = [rated, max(low, rated / 2), low]
    out = []
    for c in cands:
        if c not in out:
            out.append(c)
    return out


def configs(memtypes=("SDR", "DDR", "LPDDR", "DDR2", "DDR3", "DDR4")):
    """all (class name, speedgrade, rate, sys clk_freq) the whole-core engine can build"""
    out = []
    for cls in module_classes(memtypes):
        for sg in speedgrades(cls):
            for rate in RATES[cls.memtype]:
                n = int(rate.split(":")[1])
                for mhz in dram_clocks_mhz(cls, sg):
                    out.append(dict(kind="module", cls=cls.__name__, speedgrade=sg, rate=rate, clk_freq=mhz * 1e6 / n,
                                    memtype=cls.memtype))
    return out


def buildable(mem):
    from .wholecore import build_settings
    try:
        build_settings(dict(mem))
        return True
    except Exception:
        return False
