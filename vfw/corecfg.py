"""Configuration pool for the whole-core checks (C01..C06)."""
import random


def synth_timing(rng, rich=True):
    tRP = rng.randint(1, 4)
    tRAS = rng.choice([None, rng.randint(3, 9)])
    t = dict(
        tRP=tRP, tRCD=rng.randint(1, 4), tWR=rng.randint(1, 4), tWTR=rng.randint(1, 3),
        tREFI=400, tRFC=rng.randint(4, 12), tFAW=rng.choice([None, None, rng.randint(6, 14)]),
        tCCD=rng.choice([1, 1, 2]), tRRD=rng.choice([None, 1, 2, 3]),
        tRC=None if tRAS is None else tRAS + tRP, tRAS=tRAS, tZQCS=None)
    return t


def synth_mem(rng, family=None):
    family = family or rng.choice(["SDR1", "SDR2", "DDR2x", "DDR3x2", "DDR3x4", "DDR4x4", "LPDDR"])
    m = dict(kind="synthetic", databits=rng.choice([8, 16, 16, 32]), bankbits=rng.choice([1, 2, 2, 3]),
             rowbits=rng.choice([11, 12, 13]), colbits=rng.choice([8, 9, 10, 11]), timing=synth_timing(rng))
    if family == "SDR1":
        m.update(memtype="SDR", nphases=1, rdphase=0, wrphase=0, cl=rng.choice([2, 3]), read_latency=rng.randint(2, 6),
                 write_latency=rng.choice([0, 0, 1]))
    elif family == "SDR2":
        m.update(memtype="SDR", nphases=2, rdphase=rng.randint(0, 1), wrphase=rng.randint(0, 1), cl=2,
                 read_latency=rng.randint(2, 5), write_latency=rng.choice([0, 1]))
    elif family in ("DDR2x", "LPDDR"):
        m.update(memtype=rng.choice(["DDR", "LPDDR", "DDR2"]) if family == "DDR2x" else "LPDDR", nphases=2,
                 rdphase=rng.randint(0, 1), wrphase=rng.randint(0, 1), cl=3, cwl=rng.choice([None, 2]),
                 read_latency=rng.randint(3, 7), write_latency=rng.choice([0, 1]))
    elif family == "DDR3x2":
        m.update(memtype="DDR3", nphases=2, rdphase=rng.randint(0, 1), wrphase=rng.randint(0, 1), cl=6, cwl=5,
                 read_latency=rng.randint(4, 8), write_latency=rng.choice([0, 1, 2]), dfi_mult=4)
    elif family == "DDR3x4":
        m.update(memtype="DDR3", nphases=4, rdphase=rng.randint(0, 3), wrphase=rng.randint(0, 3), cl=rng.choice([6, 7, 10]),
                 cwl=rng.choice([5, 6, 7]), read_latency=rng.randint(4, 10), write_latency=rng.choice([0, 1, 2, 3]))
        m["bankbits"] = rng.choice([2, 3])
    elif family == "DDR4x4":
        m.update(memtype="DDR4", nphases=4, rdphase=rng.randint(0, 3), wrphase=rng.randint(0, 3), cl=rng.choice([9, 11]),
                 cwl=9, read_latency=rng.randint(4, 9), write_latency=rng.choice([1, 2]))
        m["bankbits"] = rng.choice([2, 3])
    elif family == "LPDDR4x8":
        # as LPDDR4PHY declares itself: 8 phases, 16n prefetch (burst = one controller cycle), CSR-controlled phases
        m.update(memtype="LPDDR4", nphases=8, rdphase=rng.randint(0, 7), wrphase=rng.randint(0, 7), cl=rng.choice([6, 10, 14]),
                 cwl=rng.choice([4, 6, 8]), read_latency=rng.randint(4, 9), write_latency=rng.choice([0, 1, 2]), dfi_mult=2)
        m["bankbits"] = 3
        m["colbits"] = 10
        m["force_phase_signals"] = True
    elif family == "LPDDR5x1":
        # as LPDDR5PHY declares itself: a single phase carrying the whole BL16 burst
        m.update(memtype="LPDDR5", nphases=1, rdphase=0, wrphase=0, cl=rng.choice([6, 8, 10]), cwl=rng.choice([4, 6]),
                 read_latency=rng.randint(3, 8), write_latency=rng.choice([0, 1, 2]), dfi_mult=16, databits=rng.choice([8, 16]))
        m["bankbits"] = rng.choice([3, 4])
        m["colbits"] = rng.choice([6, 10])
    if m["colbits"] > 10:
        # a device with column bit 11 has at least 12 address pins (A10 is skipped by columns)
        m["rowbits"] = max(m["rowbits"], m["colbits"] + 1)
    m["family"] = family
    # a third of the multi-phase configurations pass the phases as Signals (CSR-controlled phases of the 7-series /
    # UltraScale PHYs); drawn last so that the rest of the configuration stream is unchanged
    force = m.pop("force_phase_signals", False)
    m["phase_signals"] = bool(m["nphases"] > 1 and (rng.random() < 0.35 or force))
    return m


MODULE_MEMS = [
    # (class, clk_freq, rate) as LiteX boards use them
    dict(kind="module", cls="MT48LC4M16", clk_freq=100e6, rate="1:1"),
    dict(kind="module", cls="IS42S16160", clk_freq=50e6, rate="1:1"),
    dict(kind="module", cls="AS4C16M16", clk_freq=75e6, rate="1:2"),
    dict(kind="module", cls="MT46V32M16", clk_freq=100e6, rate="1:2"),
    dict(kind="module", cls="MT46H32M16", clk_freq=83e6, rate="1:2"),
    dict(kind="module", cls="MT47H64M16", clk_freq=125e6, rate="1:2"),
    dict(kind="module", cls="MT41K128M16", clk_freq=100e6, rate="1:4"),
    dict(kind="module", cls="MT41J128M16", clk_freq=125e6, rate="1:4"),
    dict(kind="module", cls="MT40A1G8", clk_freq=125e6, rate="1:4"),
]


def rand_cs(rng, allow_buffered=True, refresh=True):
    cs = dict(
        cmd_buffer_depth=rng.choice([1, 2, 3, 4, 4, 8, 8, 16]),
        cmd_buffer_buffered=bool(allow_buffered and rng.random() < 0.35),
        with_auto_precharge=rng.random() < 0.6,
        with_refresh=refresh,
        refresh_postponing=rng.choice([1, 1, 2, 4, 8, 3, 5, 7]) if refresh else 1,
        read_time=rng.choice([32, 32, 8, 16, 5, 2]),
        write_time=rng.choice([16, 16, 4, 8, 3, 2]),
    )
    return cs


def cost_of(mem, nports, cycles):
    """rough relative cost (seconds) for load balancing"""
    if mem["kind"] == "module":
        nb = {"MT40A1G8": 16, "MT41K128M16": 8, "MT41J128M16": 8, "MT47H64M16": 8}.get(mem["cls"], 4)
        nph = int(mem["rate"].split(":")[1])
    else:
        nb = (1 << mem["bankbits"]) * mem.get("nranks", 1)
        nph = min(mem["nphases"], 5)
    per_cycle = 0.002 + 0.0018 * nb + 0.0008 * nph + 0.0006 * nports * nb / 4
    return per_cycle * cycles
